/-
Helpers for `Freshness.lean`, part 3: `Solver.step` preserves the run-level freshness invariant.
-/
import PubgrubProofs.FreshnessAux2

set_option linter.unusedSectionVars false
set_option linter.unusedVariables false

namespace Pubgrub
open VersionSet

variable {P S V M Pr E : Type} [DecidableEq P] [VersionSet S V] [DecidableEq S] [DecidableEq V]
  [LE Pr] [DecidableLE Pr] [LawfulVersionSet S V]

theorem finv_step (W : World P S V M) (hW : W.SetsValid) (root : P) (rv : V)
    (lp : P → Option (S × Pr))
    (s : SolverState P S V M Pr) (req : Request P S V M Pr E) (a : Answer P S V M Pr E)
    (h0 : RInv W root rv (s, req)) (h : RInv' (s, req)) (hc : Solver.Coherent (s, req))
    (hf : FInv lp (s, req)) (ha : AnswerOK W req a) :
    FInv (lpNext lp req a) (Solver.step s a) := by
  unfold Solver.step
  split
  · -- finished
    rename_i hph
    refine ⟨?_, ?_, ?_, ?_, ?_, ?_⟩
    · intro h'; simp only at h'; rw [hph] at h'; cases h'
    · intro _ _ h'; simp only at h'; rw [hph] at h'; cases h'
    · intro _ _ h'; simp only at h'; rw [hph] at h'; cases h'
    · intro _ _ _ h'; simp only at h'; rw [hph] at h'; cases h'
    · intro _ h'; simp only at h'; rw [hph] at h'; cases h'
    · intro _ _ h'; cases h'
  · exact finv_finish _ s _ (by intro _ _ h'; cases h')
  · -- cancel, ok
    rename_i hph
    have hreq : req = .shouldCancel := by simpa [Solver.Coherent, hph] using hc
    subst hreq
    have hlp : lpNext lp (Request.shouldCancel : Request P S V M Pr E) Answer.ok = lp := rfl
    rw [hlp]
    obtain ⟨hp, hq⟩ := h.live (by rw [hph]; intro e; cases e)
    have hfr := hf.cancel hph
    split
    · exact finv_finish _ s _ (by intro _ _ h'; cases h')
    · split
      · exact finv_finish _ _ _ (by intro _ _ h'; cases h')
      · exact finv_finish _ _ _ (by intro _ _ h'; cases h')
    · rename_i st hu
      have hfr1 : st.ps.QFresh lp := State.unitPropagation_qfresh hu hp hfr
      split
      · exact finv_finish _ _ _ (by intro _ _ h'; cases h')
      · refine ⟨?_, ?_, ?_, ?_, ?_, ?_⟩
        · intro h'; simp at h'
        · intro _ _ h'; simp at h'
        · intro _ _ h'; simp at h'
        · intro _ _ _ h'; simp at h'
        · intro acc h'
          simp only [Phase.picking.injEq] at h'
          subst h'
          exact PartialSolution.EQ_nil hfr1
        · intro _ _ h'; simp at h'
      · refine ⟨?_, ?_, ?_, ?_, ?_, ?_⟩
        · intro h'; simp at h'
        · intro _ _ h'; simp at h'
        · intro _ _ h'; simp at h'
        · intro c r ac h'
          simp only [Phase.prioritizing.injEq] at h'
          obtain ⟨rfl, rfl, rfl⟩ := h'
          exact PartialSolution.EQ_nil hfr1
        · intro _ h'; simp at h'
        · intro _ _ h'; simp at h'
  · -- prioritizing
    rename_i cur rest acc pr hph
    have hreq : req = .prioritize cur.1 cur.2 := by simpa [Solver.Coherent, hph] using hc
    subst hreq
    have hlp : lpNext lp (Request.prioritize cur.1 cur.2 : Request P S V M Pr E) (Answer.priority pr) =
        fun x => if cur.1 = x then some (cur.2, pr) else lp x := rfl
    rw [hlp]
    obtain ⟨hp, hq⟩ := h.live (by rw [hph]; intro e; cases e)
    obtain ⟨done, hL, hdone⟩ := h.prioritizing _ _ _ hph
    have he := hf.prioritizing _ _ _ hph
    have he' := PartialSolution.EQ_snoc hp.wf.wf (c := cur.1) (sc := cur.2) hL (by simp) he pr
    simp only
    split
    · refine ⟨?_, ?_, ?_, ?_, ?_, ?_⟩
      · intro h'; simp at h'
      · intro _ _ h'; simp at h'
      · intro _ _ h'; simp at h'
      · intro _ _ _ h'; simp at h'
      · intro acc' h'
        simp only [Phase.picking.injEq] at h'
        subst h'
        exact he'
      · intro _ _ h'; simp at h'
    · refine ⟨?_, ?_, ?_, ?_, ?_, ?_⟩
      · intro h'; simp at h'
      · intro _ _ h'; simp at h'
      · intro _ _ h'; simp at h'
      · intro c r ac h'
        simp only [Phase.prioritizing.injEq] at h'
        obtain ⟨rfl, rfl, rfl⟩ := h'
        exact he'
      · intro _ h'; simp at h'
      · intro _ _ h'; simp at h'
  · -- picking
    rename_i acc o hph
    obtain ⟨hp, hq⟩ := h.live (by rw [hph]; intro e; cases e)
    obtain ⟨⟨L, hL, hLk⟩, hreq⟩ := h.picking _ hph
    simp only at hreq
    subst hreq
    have hlp : lpNext lp (Request.pick (s.st.ps.afterPrioritize acc).queue : Request P S V M Pr E)
        (Answer.picked o) = lp := rfl
    rw [hlp]
    have hw1 : (s.st.ps.afterPrioritize acc).WF' :=
      PartialSolution.afterPrioritize_wf' hp.wf acc
        (fun q hq' => PartialSolution.toPrioritize_sound hp.wf.wf hL q (hLk ▸ hq'))
    have he := hf.picking _ hph
    simp only
    split
    · split
      · exact finv_finish _ s _ (by intro _ _ h'; cases h')
      · split
        · exact finv_finish _ _ _ (by intro _ _ h'; cases h')
        · exact finv_finish _ _ _ (by intro _ _ h'; cases h')
    · rename_i p
      split
      · exact finv_finish _ s _ (by intro _ _ h'; cases h')
      · rename_i hmax
        split
        · exact finv_finish _ _ _ (by intro _ _ h'; cases h')
        · rename_i t ht
          split
          · exact finv_finish _ _ _ (by intro _ _ h'; cases h')
          · rename_i set hset
            have hfr := he.pick hL hLk hw1.wf p
            refine ⟨?_, ?_, ?_, ?_, ?_, ?_⟩
            · intro h'; simp at h'
            · intro _ _ _; exact ⟨hfr, rfl⟩
            · intro _ _ h'; simp at h'
            · intro _ _ _ h'; simp at h'
            · intro _ h'; simp at h'
            · intro p' set' h'
              injection h' with h1 h2; subst h1; subst h2
              have hget : ∃ pr, SmallMap.get (s.st.ps.afterPrioritize acc).queue p = some pr := by
                unfold Solver.isMaximal at hmax
                cases hg : SmallMap.get (s.st.ps.afterPrioritize acc).queue p with
                | none => rw [hg] at hmax; simp at hmax
                | some pr => exact ⟨pr, rfl⟩
              obtain ⟨pr, hpr⟩ := hget
              obtain ⟨sq, hlq, hall⟩ := he.settled hL hLk hpr
              refine ⟨pr, ?_⟩
              rw [hlq]
              have ht' := Solver.unwrapPositive_ok hset
              subst ht'
              simp only [PartialSolution.termIntersectionForPackage, Option.map_eq_some_iff] at ht
              obtain ⟨pa, hpa, hterm⟩ := ht
              have hpa' : s.st.ps.getPA p = some pa := hpa
              obtain ⟨i, _, hi⟩ := PartialSolution.getElem_of_getPA hpa'
              obtain ⟨pr2, hpr2⟩ : ∃ pr2, (p, pr2) ∈ (s.st.ps.afterPrioritize acc).queue :=
                ⟨pr, SmallMap.mem_of_get hpr⟩
              obtain ⟨pa2, set2, hpa2, hinter2⟩ := hw1.wf.queue_sub p pr2 hpr2
              have hpa2' : s.st.ps.getPA p = some pa2 := hpa2
              rw [hpa'] at hpa2'; injection hpa2' with hpa2'; subst hpa2'
              rw [hinter2] at hterm
              simp only [AssignInter.term] at hterm
              injection hterm with hterm; subst hterm
              rw [hall i pa set2 hi hinter2]
  · -- choosing, error
    exact finv_finish _ s _ (by intro _ _ h'; cases h')
  · -- choosing, none
    rename_i p t hph
    obtain ⟨set, hreq, hts⟩ : ∃ set, req = .chooseVersion p set ∧ t = .pos set := by
      simpa [Solver.Coherent, hph] using hc
    subst hreq
    have hlp : lpNext lp (Request.chooseVersion p set : Request P S V M Pr E) (Answer.version none) = lp := rfl
    rw [hlp]
    obtain ⟨hp, hq⟩ := h.live (by rw [hph]; intro e; cases e)
    obtain ⟨hfr, hch⟩ := hf.choosing p t hph
    split
    · exact finv_finish _ s _ (by intro _ _ h'; cases h')
    · rename_i inc hinc
      split
      · exact finv_finish _ s _ (by intro _ _ h'; cases h')
      · rename_i st hadd
        obtain ⟨hp1, eps⟩ := State.addIncompatibility_pinv hadd hp
        exact finv_loopAgain _ s st (eps ▸ hfr)
  · -- choosing, some v
    rename_i p t v hph
    obtain ⟨set, hreq, hts⟩ : ∃ set, req = .chooseVersion p set ∧ t = .pos set := by
      simpa [Solver.Coherent, hph] using hc
    subst hreq
    have hlp : lpNext lp (Request.chooseVersion p set : Request P S V M Pr E) (Answer.version (some v)) = lp :=
      rfl
    rw [hlp]
    obtain ⟨hp, hq⟩ := h.live (by rw [hph]; intro e; cases e)
    obtain ⟨hfr, hch⟩ := hf.choosing p t hph
    obtain ⟨hnext, hterm, hall, hqn, pa, set', hpa, hinter⟩ := h.choosing p t hph
    simp only at hnext hterm hall hqn hpa hfr hch
    split
    · exact finv_finish _ s _ (by intro _ _ h'; cases h')
    · simp only
      split
      · refine ⟨?_, ?_, ?_, ?_, ?_, ?_⟩
        · intro h'; simp at h'
        · intro _ _ h'; simp at h'
        · intro _ _ _; exact ⟨hfr, hch⟩
        · intro _ _ _ h'; simp at h'
        · intro _ h'; simp at h'
        · intro _ _ h'; simp at h'
      · split
        · exact finv_finish _ _ _ (by intro _ _ h'; cases h')
        · rename_i ps hps
          exact finv_loopAgain _ _ _
            (PartialSolution.addDecision_qfresh hp.wf.wf hfr hch hqn hps hpa hinter)
  · -- fetching, error
    exact finv_finish _ s _ (by intro _ _ h'; cases h')
  · -- fetching, unavailable
    rename_i p v m hph
    have hreq : req = .getDependencies p v := by simpa [Solver.Coherent, hph] using hc
    subst hreq
    have hlp : lpNext lp (Request.getDependencies p v : Request P S V M Pr E) (Answer.unavailable m) = lp := rfl
    rw [hlp]
    obtain ⟨hp, hq⟩ := h.live (by rw [hph]; intro e; cases e)
    obtain ⟨hfr, hch⟩ := hf.fetching p v hph
    split
    · exact finv_finish _ s _ (by intro _ _ h'; cases h')
    · rename_i st hadd
      obtain ⟨hp1, eps⟩ := State.addIncompatibility_pinv hadd hp
      exact finv_loopAgain _ s st (eps ▸ hfr)
  · -- fetching, available
    rename_i p v deps hph
    have hreq : req = .getDependencies p v := by simpa [Solver.Coherent, hph] using hc
    subst hreq
    have hlp : lpNext lp (Request.getDependencies p v : Request P S V M Pr E) (Answer.available deps) = lp := rfl
    rw [hlp]
    obtain ⟨hp, hq⟩ := h.live (by rw [hph]; intro e; cases e)
    obtain ⟨hfr, hch⟩ := hf.fetching p v hph
    obtain ⟨hnext, ⟨hall, hqn, pa, set', hpa, hinter⟩, t, hterm, hcont⟩ := h.fetching p v hph
    simp only at hnext hterm hall hqn hpa hfr hch
    split
    · exact finv_finish _ s _ (by intro _ _ h'; cases h')
    · rename_i st start stop hadd
      obtain ⟨hp1, eps⟩ := State.addIncompatibilityFromDependencies_pinv hadd hp
      simp only
      split
      · exact finv_finish _ _ _ (by intro _ _ h'; cases h')
      · rename_i ps hps
        have hfr1 : st.ps.QFresh lp := eps ▸ hfr
        have hdec : ∀ {ps'}, st.ps.addDecision st.debug p v = .ok ps' → ps'.QFresh lp := by
          intro ps' hps'
          exact PartialSolution.addDecision_qfresh hp1.wf.wf hfr1 (eps ▸ hch) (eps ▸ hqn) hps'
            (eps ▸ hpa) hinter
        unfold PartialSolution.addVersion at hps
        split at hps
        · exact finv_loopAgain _ _ _ (hdec hps)
        · simp only at hps
          split at hps
          · exact finv_loopAgain _ _ _ (hdec hps)
          · injection hps with hps; subst hps
            exact finv_loopAgain _ _ _ hfr1
  · -- anything else
    exact finv_finish _ s _ (by intro _ _ h'; cases h')

end Pubgrub

//! The crate-private containers `SmallVec` (storage of `Range`) and `SmallMap` (storage of an
//! incompatibility's terms), driven by scripts through the cfg-guarded hooks; direct oracles:
//! a `Vec<u32>` / a `BTreeMap<u32, u32>` doing the same operations.
use crate::cases::{Case, Sink};
use crate::eval::eval_line;
use crate::util::Rng;
use std::collections::BTreeMap;

/// `svx|P1 P2 O C` (C16: `==` and `Hash` of a range depend on the segments only)
pub fn eval_svx(req: &str, script: &str) -> Case {
    let imp = pubgrub::verif::smallvec_script(script);
    let mut fail: Option<String> = None;
    // reference run
    let mut v: Vec<u32> = vec![];
    let mut expect: Vec<(Vec<u32>, Option<Option<u32>>)> = vec![];
    for op in script.split(' ').filter(|o| !o.is_empty()) {
        if op == "O" {
            let p = v.pop();
            expect.push((v.clone(), Some(p)));
        } else if op == "C" {
            v.clear();
            expect.push((v.clone(), None));
        } else {
            v.push(op[1..].parse().unwrap());
            expect.push((v.clone(), None));
        }
    }
    let (steps, rest) = imp.split_once('|').unwrap_or((&imp, ""));
    let lines: Vec<&str> = if steps.is_empty() { vec![] } else { steps.split(';').collect() };
    if lines.len() != expect.len() {
        fail = Some("wrong number of steps".into());
    } else {
        for (l, (slice, popped)) in lines.iter().zip(expect.iter()) {
            let f: Vec<&str> = l.split(':').collect();
            let want: Vec<String> = slice.iter().map(|x| x.to_string()).collect();
            if f.len() < 2 || f[1] != want.join(",") {
                fail = Some(format!("as_slice is {} but a Vec doing the same operations holds {:?}", l, slice));
                break;
            }
            if let Some(p) = popped {
                let w = p.map(|x| x.to_string()).unwrap_or("none".into());
                if f.get(2).copied() != Some(w.as_str()) {
                    fail = Some(format!("pop returned {:?} but the Vec popped {}", f.get(2), w));
                    break;
                }
            }
        }
    }
    // Hash: what is fed to the hasher must be a function of the slice alone: the same as for the vector
    // that holds this slice after nothing but pushes (how std lays the bytes out is not our business:
    // the exact feed is compared with the model by the mirror, not asserted here)
    let canonical: Vec<String> = v.iter().map(|x| format!("P{}", x)).collect();
    let canon_out = pubgrub::verif::smallvec_script(&canonical.join(" "));
    let canon_rest = canon_out.split_once('|').map(|(_, r)| r.to_string()).unwrap_or_default();
    if fail.is_none() && rest != canon_rest {
        fail = Some(format!("Hash / len differ between two vectors holding the same slice {:?}: {} after this script, {} after pushes only", v, rest, canon_rest));
    }
    let mut tags = vec![];
    if imp.contains("F:") {
        tags.push("smallvec_reached_flexible");
    }
    if script.contains('O') {
        tags.push("smallvec_pop");
    }
    Case { req: req.to_string(), imp, nontrivial: true, oracle_fail: fail, tags }
}

/// `smx|I 1 2;R 1;G 3;S 1;L;M 1=2,3=4`
pub fn eval_smx(req: &str, script: &str) -> Case {
    let imp = pubgrub::verif::smallmap_script(script);
    let mut fail: Option<String> = None;
    let mut m: BTreeMap<u32, u32> = BTreeMap::new();
    let lines: Vec<&str> = if imp.is_empty() { vec![] } else { imp.split(';').collect() };
    let ops: Vec<&str> = script.split(';').filter(|o| !o.is_empty()).collect();
    let entries = |m: &BTreeMap<u32, u32>| -> Vec<String> { m.iter().map(|(k, v)| format!("{}={}", k, v)).collect() };
    if lines.len() != ops.len() {
        fail = Some("wrong number of steps".into());
    } else {
        for (op, l) in ops.iter().zip(lines.iter()) {
            let f: Vec<&str> = op.split(' ').collect();
            let mut result: Option<String> = None;
            match f[0] {
                "I" => {
                    m.insert(f[1].parse().unwrap(), f[2].parse().unwrap());
                }
                "R" => {
                    let r = m.remove(&f[1].parse().unwrap());
                    result = Some(r.map(|x| x.to_string()).unwrap_or("none".into()));
                }
                "G" => {
                    let r = m.get(&f[1].parse().unwrap()).copied();
                    result = Some(r.map(|x| x.to_string()).unwrap_or("none".into()));
                }
                "S" => {
                    let k: u32 = f[1].parse().unwrap();
                    result = Some(match m.get(&k) {
                        None => "none".into(),
                        Some(v) => {
                            let mut rest = m.clone();
                            rest.remove(&k);
                            format!("{}:{}", v, entries(&rest).join(","))
                        }
                    });
                }
                "L" => result = Some(m.len().to_string()),
                "M" => {
                    for e in f.get(1).copied().unwrap_or("").split(',').filter(|e| !e.is_empty()) {
                        let (k, v) = e.split_once('=').unwrap();
                        let (k, v): (u32, u32) = (k.parse().unwrap(), v.parse().unwrap());
                        match m.get(&k).copied() {
                            None => {
                                m.insert(k, v);
                            }
                            Some(a) => {
                                if (a + v) % 3 == 0 {
                                    m.remove(&k);
                                } else {
                                    m.insert(k, a + v);
                                }
                            }
                        }
                    }
                }
                _ => {}
            }
            // compare as maps: sort the implementation's entries
            let g: Vec<&str> = l.split(':').collect();
            let mut got: Vec<(u32, u32)> = g.get(1).copied().unwrap_or("").split(',').filter(|e| !e.is_empty()).map(|e| {
                let (k, v) = e.split_once('=').unwrap();
                (k.parse().unwrap(), v.parse().unwrap())
            }).collect();
            got.sort();
            let got: Vec<String> = got.iter().map(|(k, v)| format!("{}={}", k, v)).collect();
            if got != entries(&m) {
                fail = Some(format!("after `{}` the map holds {:?} but a BTreeMap doing the same holds {:?}", op, got, entries(&m)));
                break;
            }
            if let Some(r) = result {
                // for split_one the remainder is printed with its variant tag: compare values and entries
                let tail: Vec<&str> = g[2..].to_vec();
                let got_r = if f[0] == "S" && tail.len() >= 3 {
                    let mut rest: Vec<(u32, u32)> = tail[2].split(',').filter(|e| !e.is_empty()).map(|e| {
                        let (k, v) = e.split_once('=').unwrap();
                        (k.parse().unwrap(), v.parse().unwrap())
                    }).collect();
                    rest.sort();
                    format!("{}:{}", tail[0], rest.iter().map(|(k, v)| format!("{}={}", k, v)).collect::<Vec<_>>().join(","))
                } else {
                    tail.join(":")
                };
                if got_r != r {
                    fail = Some(format!("`{}` returned {} but the BTreeMap gives {}", op, got_r, r));
                    break;
                }
            }
        }
    }
    let mut tags = vec![];
    if imp.contains("F:") {
        tags.push("smallmap_reached_flexible");
    }
    if script.contains('M') {
        tags.push("smallmap_merge");
    }
    Case { req: req.to_string(), imp, nontrivial: true, oracle_fail: fail, tags }
}

/// all scripts up to a length over a small alphabet, then random longer ones
pub fn gen_svx(sink: &mut Sink, thorough: bool, seed: u64) {
    let alphabet = ["P1", "P2", "O", "C"];
    let maxlen = if thorough { 8 } else { 6 };
    let mut count = 0u64;
    for len in 0..=maxlen {
        let total = (alphabet.len() as u64).pow(len);
        for i in 0..total {
            let mut x = i;
            let mut ops = vec![];
            for _ in 0..len {
                ops.push(alphabet[(x % 4) as usize]);
                x /= 4;
            }
            sink.push(eval_line(&format!("svx|{}", ops.join(" "))));
            count += 1;
        }
    }
    let mut rng = Rng::new(seed ^ 0x5a5a);
    let n = if thorough { 50_000 } else { 2_000 };
    for _ in 0..n {
        let len = 1 + rng.below(24);
        let ops: Vec<String> = (0..len).map(|_| match rng.below(8) {
            0 | 1 => "O".to_string(),
            2 => if rng.chance(1, 4) { "C".to_string() } else { "O".to_string() },
            _ => format!("P{}", if rng.chance(1, 10) { u32::MAX - rng.below(3) as u32 } else { rng.below(300) as u32 }),
        }).collect();
        sink.push(eval_line(&format!("svx|{}", ops.join(" "))));
    }
    sink.notes.push(format!("SmallVec: exhaustive: all {} scripts of length <= {} over {{push 1, push 2, pop, clear}}; {} random scripts up to 24 operations incl. u32 extremes", count, maxlen, n));
}

pub fn gen_smx(sink: &mut Sink, thorough: bool, seed: u64) {
    // exhaustive: keys 1..=3, a few values
    let alphabet = ["I 1 1", "I 2 2", "I 3 1", "I 1 2", "R 1", "R 2", "G 1", "S 2", "L", "M 1=2,2=1,4=4", "M 3=2"];
    let maxlen = if thorough { 5 } else { 4 };
    let mut count = 0u64;
    let k = alphabet.len() as u64;
    for len in 0..=maxlen {
        for i in 0..k.pow(len) {
            let mut x = i;
            let mut ops = vec![];
            for _ in 0..len {
                ops.push(alphabet[(x % k) as usize]);
                x /= k;
            }
            sink.push(eval_line(&format!("smx|{}", ops.join(";"))));
            count += 1;
        }
    }
    let mut rng = Rng::new(seed ^ 0xa5a5);
    let n = if thorough { 50_000 } else { 2_000 };
    for _ in 0..n {
        let len = 1 + rng.below(16);
        let ops: Vec<String> = (0..len).map(|_| {
            let key = 1 + rng.below(6);
            match rng.below(10) {
                0 | 1 | 2 | 3 => format!("I {} {}", key, rng.below(9)),
                4 | 5 => format!("R {}", key),
                6 => format!("G {}", key),
                7 => format!("S {}", key),
                8 => "L".to_string(),
                _ => {
                    // distinct keys, as the iterator of another map provides
                    let mut keys: Vec<u64> = (1..=6).collect();
                    let m = rng.below(4) as usize;
                    while keys.len() > m {
                        let i = rng.below(keys.len() as u64) as usize;
                        keys.remove(i);
                    }
                    format!("M {}", keys.iter().map(|k| format!("{}={}", k, rng.below(9))).collect::<Vec<_>>().join(","))
                }
            }
        }).collect();
        sink.push(eval_line(&format!("smx|{}", ops.join(";"))));
    }
    sink.notes.push(format!("SmallMap: exhaustive: all {} scripts of length <= {} over an 11-operation alphabet (insert/overwrite, remove, get, split_one, len, merge with a dropping function); {} random scripts", count, maxlen, n));
}

/-
Helpers for `OwnInvariant.lean`, part 4: more instances of the transport lemma (backtrack, decision,
growth of the store, growth of the index), the index after `updIndex` folds, and the fact that an
owned clause of a decided package is never `Inconclusive`.
-/
import PubgrubProofs.OwnInvariantAux3

set_option linter.unusedSectionVars false
set_option linter.unusedVariables false

namespace Pubgrub
open VersionSet

/-! ### the index -/
section Index
variable {P : Type} [DecidableEq P]

/-- the ids listed under a package in an index -/
def idxOf (idx : List (P × List Nat)) (p : P) : List Nat := (SmallMap.get idx p).getD []

theorem idxOf_updIndex (idx : List (P × List Nat)) (p : P) (f : List Nat → List Nat) (q : P) :
    idxOf (State.updIndex idx p f) q = if q = p then f (idxOf idx p) else idxOf idx q := by
  unfold State.updIndex idxOf
  cases h : SmallMap.get idx p with
  | none =>
    simp only [SmallMap.get_insert]
    by_cases hq : q = p
    · simp [hq]
    · simp [hq]
  | some ids =>
    simp only [SmallMap.get_insert]
    by_cases hq : q = p
    · simp [hq]
    · simp [hq]

theorem mem_idxOf_foldl_append {T : Type} (id : Nat) :
    ∀ (terms : List (P × T)) (idx : List (P × List Nat)) (q : P) (i : Nat),
      i ∈ idxOf (terms.foldl (fun idx kv => State.updIndex idx kv.1 (fun ids => ids ++ [id])) idx) q ↔
        (i ∈ idxOf idx q ∨ (i = id ∧ q ∈ terms.map Prod.fst)) := by
  intro terms
  induction terms with
  | nil => intro idx q i; simp
  | cons x rest ih =>
    intro idx q i
    rw [List.foldl_cons, ih, idxOf_updIndex]
    by_cases hq : q = x.1
    · subst hq
      simp only [if_true, List.mem_append, List.map_cons, List.mem_cons, true_or,
        and_true, List.not_mem_nil, or_false]
      constructor
      · rintro ((h | h) | ⟨h, _⟩)
        · exact Or.inl h
        · exact Or.inr h
        · exact Or.inr h
      · rintro (h | h)
        · exact Or.inl (Or.inl h)
        · exact Or.inl (Or.inr h)
    · rw [if_neg hq]
      simp only [List.map_cons, List.mem_cons, hq, false_or]

theorem mem_idxOf_foldl_filter {T : Type} (past : Nat) :
    ∀ (terms : List (P × T)) (idx : List (P × List Nat)) (q : P) (i : Nat),
      i ∈ idxOf (terms.foldl (fun idx kv => State.updIndex idx kv.1 (fun ids => ids.filter (· ≠ past))) idx) q ↔
        (i ∈ idxOf idx q ∧ (q ∈ terms.map Prod.fst → i ≠ past)) := by
  intro terms
  induction terms with
  | nil => intro idx q i; simp
  | cons x rest ih =>
    intro idx q i
    rw [List.foldl_cons, ih, idxOf_updIndex]
    by_cases hq : q = x.1
    · subst hq
      simp only [if_true, List.mem_filter, decide_eq_true_eq, List.map_cons, List.mem_cons, true_or,
        forall_const]
      constructor
      · rintro ⟨⟨h1, h2⟩, _⟩; exact ⟨h1, h2⟩
      · rintro ⟨h1, h2⟩; exact ⟨⟨h1, h2⟩, fun _ => h2⟩
    · rw [if_neg hq]
      simp only [List.map_cons, List.mem_cons, hq, false_or]

end Index

section Lawful
variable {P S V M Pr : Type} [DecidableEq P] [VersionSet S V] [DecidableEq S] [LawfulVersionSet S V]

theorem State.indexOf_eq (st : State P S V M Pr) (p : P) : st.indexOf p = idxOf st.incompatibilities p := rfl

/-! ### backtrack -/

/-- `backtrack` of the partial solution to a level strictly below the current one (with the filtering
of the cache): every waiver concerned the current level and is gone -/
theorem Sem.backtrackPS (W : World P S V M) (root : P) (rv : V) {st : State P S V M Pr}
    {waive : P → Nat → Prop} (h : Sem W root rv st waive) {dl : Nat}
    (hdl : dl < st.ps.currentDecisionLevel) {ps' : PartialSolution P S V Pr}
    (hb : st.ps.backtrack dl = .ok ps') :
    Sem W root rv
      { st with ps := ps', contradicted := SmallMap.retainVals st.contradicted (fun l => l ≤ dl) }
      noWaive := by
  have hw := h.pinv.wf
  have hlev := PartialSolution.backtrack_level hb
  have hw' := (PartialSolution.backtrack_wf' hw (Nat.le_of_lt hdl) hb).1
  refine Sem.transport W root rv h
    (st' := { st with ps := ps', contradicted := SmallMap.retainVals st.contradicted (fun l => l ≤ dl) })
    rfl rfl rfl rfl (PartialSolution.backtrack_termsValid h.sinv.ps hb) ?_ ?_ ?_ ?_
  · refine ⟨hw', ?_⟩
    intro kv hkv
    exact h.pinv.cache kv (List.mem_filter.1 hkv).1
  · intro l hl
    have hl' : l ≤ dl := hlev ▸ hl
    rw [Nat.min_eq_left (by omega)]
    exact TermsLE.of_eq (PartialSolution.termsAt_backtrack hw hb hl')
  · intro p pa' g v t hpa' hd l hl1 hl2 i hi inc hinc hown hwv
    left
    have hl' : l ≤ dl := hlev ▸ hl2
    obtain ⟨hpa, _⟩ := PartialSolution.backtrack_decided hw.wf hb hpa' hd
    refine ⟨pa', g, v, t, hpa, hd, ?_, ?_⟩
    · rw [Nat.min_eq_left (by omega)]; exact hl1
    · intro hmin
      have : min l st.ps.currentDecisionLevel = l := Nat.min_eq_left (by omega)
      omega
  · intro i l0 hm
    obtain ⟨hm1, hm2⟩ := List.mem_filter.1 hm
    simp only [decide_eq_true_eq] at hm2
    exact ⟨by show l0 ≤ ps'.currentDecisionLevel; rw [hlev]; exact hm2, Or.inl hm1⟩

/-! ### decision -/

/-- a decision for an undecided package: the obligations of the other decided packages carry over to
the new level, those of the newly decided package are waived until its clauses have been examined -/
theorem Sem.decide (W : World P S V M) (root : P) (rv : V) {st : State P S V M Pr}
    (h : Sem W root rv st noWaive) {debug : Bool} {p : P} {v : V}
    {t : Term S} {pa : PackageAssignments S V} (hpa : st.ps.getPA p = some pa)
    (ht : pa.inter = .derivations t) (hv : t.contains v = true)
    (hq : SmallMap.get st.ps.queue p = none)
    {ps' : PartialSolution P S V Pr} (hd : PartialSolution.addDecision debug st.ps p v = .ok ps') :
    Sem W root rv { st with ps := ps' } (fun p' _ => p' = p) := by
  have hw := h.pinv.wf
  have hw' := PartialSolution.addDecision_wf' hw hd hpa ht hv hq
  have hlev := PartialSolution.addDecision_level hw.wf hd hpa ht
  refine Sem.transport W root rv h (st' := { st with ps := ps' })
    rfl rfl rfl rfl (PartialSolution.addDecision_termsValid h.sinv.ps hd) ⟨hw', h.pinv.cache⟩ ?_ ?_ ?_
  · intro l hl
    have hl' : l ≤ st.ps.currentDecisionLevel + 1 := hlev ▸ hl
    by_cases hle : l ≤ st.ps.currentDecisionLevel
    · rw [Nat.min_eq_left hle]
      exact TermsLE.of_eq (PartialSolution.termsAt_addDecision_le hw.wf hd hw'.wf hpa ht hle)
    · have hl1 : l = ps'.currentDecisionLevel := by rw [hlev]; omega
      subst hl1
      rw [Nat.min_eq_right (by omega)]
      show TermsLE (ps'.termsAt ps'.currentDecisionLevel) _
      rw [PartialSolution.termsAt_top hw'.wf (Nat.le_refl _), PartialSolution.termsAt_top hw.wf (Nat.le_refl _)]
      exact PartialSolution.termsLE_addDecision hw.wf hd hw'.wf hpa ht hv
  · intro p' pa' g v' t' hpa' hd' l hl1 hl2 i hi inc hinc hown hwv
    have hl2' : l ≤ st.ps.currentDecisionLevel + 1 := hlev ▸ hl2
    have hget := PartialSolution.addDecision_getPA hw.wf hd hw'.wf hpa ht p'
    rw [hpa'] at hget
    by_cases hp : p' = p
    · exfalso
      rw [if_pos hp] at hget
      injection hget with hget
      have : pa'.highest = st.ps.currentDecisionLevel + 1 := by rw [hget]; rfl
      exact hwv (by show l = ps'.currentDecisionLevel; rw [hlev]; omega) hp
    · rw [if_neg hp] at hget
      left
      refine ⟨pa', g, v', t', hget.symm, hd', ?_, fun _ hf => hf⟩
      have := PartialSolution.highest_le hw.wf hget.symm
      exact Nat.le_min.2 ⟨hl1, this⟩
  · intro i l0 hm
    exact ⟨by show l0 ≤ ps'.currentDecisionLevel; rw [hlev]; exact Nat.le_succ_of_le (h.cache i l0 hm).1,
      Or.inl hm⟩

/-! ### growth of the store and of the index -/

/-- appending good incompatibilities to the store -/
theorem Sem.storeAppend (W : World P S V M) (root : P) (rv : V) {st : State P S V M Pr}
    {waive : P → Nat → Prop} (h : Sem W root rv st waive) (extra : List (Incompat P S V M))
    (hg : StoreInv W root rv (st.store ++ extra)) :
    Sem W root rv { st with store := st.store ++ extra } waive := by
  have hpre : ∀ id, id < st.store.length → (st.store ++ extra)[id]? = st.store[id]? :=
    fun id hid => List.getElem?_append_left hid
  refine ⟨⟨hg, h.sinv.root, h.sinv.rv, h.sinv.ps⟩, ⟨h.pinv.wf, ?_⟩, ?_, ?_, ?_, ?_⟩
  · intro kv hkv
    simp only [List.length_append]
    exact Nat.lt_of_lt_of_le (h.pinv.cache kv hkv) (Nat.le_add_right _ _)
  · intro p pa g v t e1 e2 l l1 l2 id hid inc hinc ho hwv
    have hb := h.idxb p id hid
    simp only at hinc
    rw [hpre id hb] at hinc
    exact h.own p pa g v t e1 e2 l l1 l2 id hid inc hinc ho hwv
  · intro id l0 hm
    obtain ⟨hl0, hc⟩ := h.cache id l0 hm
    refine ⟨hl0, ?_⟩
    intro inc hinc
    simp only at hinc
    rw [hpre id (h.pinv.cache _ hm)] at hinc
    exact hc inc hinc
  · refine ⟨?_, h.rootc.2⟩
    have h0 : 0 < st.store.length := (List.getElem?_eq_some_iff.1 h.rootc.1).1
    simp only
    rw [hpre 0 h0]; exact h.rootc.1
  · intro p id hid
    simp only [List.length_append]
    exact Nat.lt_of_lt_of_le (h.idxb p id hid) (Nat.le_add_right _ _)

/-- the index changes: every newly listed id is a stored incompatibility that no decided package owns -/
theorem Sem.indexChange (W : World P S V M) (root : P) (rv : V) {st : State P S V M Pr}
    {waive : P → Nat → Prop} (h : Sem W root rv st waive)
    (idx : List (P × List Nat)) (md : List ((P × P) × List Nat))
    (hnew : ∀ p i, i ∈ idxOf idx p → i ∈ st.indexOf p ∨
      (i < st.store.length ∧ ∀ inc, st.store[i]? = some inc → inc.OwnedBy p →
        ∀ pa g v t, st.ps.getPA p = some pa → pa.inter ≠ .decision g v t)) :
    Sem W root rv { st with incompatibilities := idx, mergedDependencies := md } waive := by
  refine ⟨⟨h.sinv.store, h.sinv.root, h.sinv.rv, h.sinv.ps⟩, ⟨h.pinv.wf, h.pinv.cache⟩, ?_, h.cache, h.rootc, ?_⟩
  · intro p pa g v t e1 e2 l l1 l2 id hid inc hinc ho hwv
    rcases hnew p id hid with hold | ⟨_, hnw⟩
    · exact h.own p pa g v t e1 e2 l l1 l2 id hold inc hinc ho hwv
    · exact absurd e2 (hnw inc hinc ho pa g v t e1)
  · intro p id hid
    rcases hnew p id hid with hold | ⟨hlt, _⟩
    · exact h.idxb p id hold
    · exact hlt

/-! ### an owned clause of a decided package is never `Inconclusive` -/

theorem Term.relationWith_exact_ne_inconclusive (t : Term S) (ht : t.Valid) (v : V) :
    t.relationWith (Term.exact v) ≠ .inconclusive := by
  intro h
  rw [Term.relationWith_inconclusive_iff t _ ht (Term.valid_exact v)] at h
  obtain ⟨h1, h2⟩ := h
  apply h2
  intro c hc
  apply h1
  intro c' hc'
  rw [Term.eval_exact] at hc'
  have := hc.2
  rw [Term.eval_exact] at this
  subst this; subst hc'
  exact hc.1

theorem Incompat.relationGo_single_ne_inconclusive (f : P → Option (Term S)) (p : P) (t : Term S) :
    Incompat.relationGo f .satisfied [(p, t)] ≠ .inconclusive := by
  unfold Incompat.relationGo
  cases hf : f p with
  | none => simp [Incompat.relationGo]
  | some o =>
    simp only [Option.map_some]
    cases hr : t.relationWith o <;> simp [Incompat.relationGo]

theorem Incompat.owned_ne_inconclusive (W : World P S V M) (root : P) (rv : V)
    {store : List (Incompat P S V M)} {id : Nat} {inc : Incompat P S V M}
    (g : inc.Good W root rv store id) {p : P} (ho : inc.OwnedBy p)
    (f : P → Option (Term S)) {v : V} (hf : f p = some (Term.exact v)) :
    inc.relation f ≠ .inconclusive := by
  have k := g.kind
  unfold Incompat.OwnedBy at ho
  unfold Incompat.KindTrue at k
  unfold Incompat.relation
  cases hk : inc.kind with
  | notRoot q w => rw [hk] at ho; exact ho.elim
  | derivedFrom a b => rw [hk] at ho; exact ho.elim
  | noVersions q s =>
    rw [hk] at k; simp only at k
    rw [k.2]; exact Incompat.relationGo_single_ne_inconclusive f _ _
  | custom q s m =>
    rw [hk] at k; simp only at k
    obtain ⟨w, _, _, ht⟩ := k
    rw [ht]; exact Incompat.relationGo_single_ne_inconclusive f _ _
  | fromDependencyOf q s q2 t =>
    rw [hk] at k ho; simp only at k ho
    subst ho
    obtain ⟨_, vs, vt, hterms⟩ := k
    rw [hterms]
    unfold Incompat.fromDependency
    simp only
    split
    · exact Incompat.relationGo_single_ne_inconclusive f _ _
    · split
      · exact Incompat.relationGo_single_ne_inconclusive f _ _
      · unfold Incompat.relationGo
        rw [hf]
        simp only [Option.map_some]
        cases hr : (Term.pos s).relationWith (Term.exact v) with
        | satisfied => simp only; exact Incompat.relationGo_single_ne_inconclusive f _ _
        | contradicted => simp
        | inconclusive => exact absurd hr (Term.relationWith_exact_ne_inconclusive (Term.pos s) vs v)

/-- the term of a decided package is `exact v` -/
theorem PartialSolution.terms_of_decided {ps : PartialSolution P S V Pr} (h : ps.WF) {p : P}
    {pa : PackageAssignments S V} {g : Nat} {v : V} {t : Term S}
    (hpa : ps.getPA p = some pa) (hd : pa.inter = .decision g v t) :
    ps.terms p = some (Term.exact v) ∧ t = Term.exact v := by
  obtain ⟨i, _, hi⟩ := PartialSolution.getElem_of_getPA hpa
  have hlt := PartialSolution.decided_lt h hi hd
  obtain ⟨g', v', e1, _⟩ := (h.entries i p pa hi).decided hlt
  rw [hd] at e1
  injection e1 with e1 e2 e3
  subst e2; subst e3
  simp only [PartialSolution.terms, PartialSolution.termIntersectionForPackage, hpa, Option.map_some, hd,
    AssignInter.term, and_self]

end Lawful
end Pubgrub

/-
Homomorphisms of version sets, part 5: `Solver.step` commutes (`PubgrubModel/Solver.lean`).
-/
import PubgrubProofs.HomSolverAux4

set_option linter.unusedSectionVars false
set_option linter.unnecessarySeqFocus false

namespace Pubgrub
open VersionSet

section SolverLemmas
variable {P S V S' V' M Pr E : Type} [DecidableEq P] [VersionSet S V] [VersionSet S' V']
  [DecidableEq S] [DecidableEq V] [DecidableEq S'] [DecidableEq V'] [LE Pr] [DecidableLE Pr]

theorem SolverState.mapH_mk (h : VSetHom S V S' V') (st : State P S V M Pr) (added : List (P × V)) (next : P)
    (phase : Phase P S V Pr) (fuel : Nat) :
    SolverState.mapH h ⟨st, added, next, phase, fuel⟩ =
      ⟨State.mapH h st, added.map fun kv => (kv.1, h.ι kv.2), next, Phase.mapH h phase, fuel⟩ := rfl

theorem step_cancel_ok (h : VSetHom S V S' V') (st : State P S V M Pr) (added : List (P × V)) (next : P)
    (fuel : Nat) :
    Solver.step (E := E) (SolverState.mapH h ⟨st, added, next, .cancel, fuel⟩) (Answer.mapH h .ok) =
      (SolverState.mapH h (Solver.step (E := E) ⟨st, added, next, .cancel, fuel⟩ .ok).1,
       Request.mapH h (Solver.step (E := E) ⟨st, added, next, .cancel, fuel⟩ .ok).2) := by
  simp only [Solver.step, SolverState.mapH_mk, Phase.mapH, Answer.mapH, State.unitPropagation_mapH]
  cases st.unitPropagation fuel next with
  | error f => rfl
  | ok x =>
    obtain ⟨st1, o⟩ := x
    cases o with
    | some terminal =>
      simp only [exceptMap_ok, State.buildDerivationTree_mapH]
      cases st1.buildDerivationTree terminal <;> rfl
    | none =>
      simp only [exceptMap_ok, State.mapH_ps, PartialSolution.toPrioritize_mapH]
      cases st1.ps.toPrioritize with
      | error f => rfl
      | ok l =>
        cases l with
        | nil => rfl
        | cons cur rest => rfl

theorem step_prioritizing (h : VSetHom S V S' V') (st : State P S V M Pr) (added : List (P × V)) (next : P)
    (fuel : Nat) (cur : P × S) (rest : List (P × S)) (acc : List (P × Pr)) (pr : Pr) :
    Solver.step (E := E) (SolverState.mapH h ⟨st, added, next, .prioritizing cur rest acc, fuel⟩)
        (Answer.mapH h (.priority pr)) =
      (SolverState.mapH h (Solver.step (E := E) ⟨st, added, next, .prioritizing cur rest acc, fuel⟩ (.priority pr)).1,
       Request.mapH h (Solver.step (E := E) ⟨st, added, next, .prioritizing cur rest acc, fuel⟩ (.priority pr)).2) := by
  cases rest with
  | nil => rfl
  | cons nxt rest' => rfl

theorem step_picking (h : VSetHom S V S' V') (st : State P S V M Pr) (added : List (P × V)) (next : P)
    (fuel : Nat) (acc : List (P × Pr)) (o : Option P) :
    Solver.step (E := E) (SolverState.mapH h ⟨st, added, next, .picking acc, fuel⟩)
        (Answer.mapH h (.picked o)) =
      (SolverState.mapH h (Solver.step (E := E) ⟨st, added, next, .picking acc, fuel⟩ (.picked o)).1,
       Request.mapH h (Solver.step (E := E) ⟨st, added, next, .picking acc, fuel⟩ (.picked o)).2) := by
  simp only [Solver.step, SolverState.mapH_mk, Phase.mapH, Answer.mapH, State.mapH_ps,
    PartialSolution.afterPrioritize_mapH, PartialSolution.mapH_queue, PartialSolution.extractSolution_mapH]
  cases o with
  | none =>
    simp only []
    split
    · rfl
    · cases (st.ps.afterPrioritize acc).extractSolution <;> rfl
  | some p =>
    simp only []
    split
    · rfl
    · have ht : ∀ ps' : PartialSolution P S' V' Pr,
          ps' = PartialSolution.mapH h { st.ps.afterPrioritize acc with
            queue := SmallMap.remove (st.ps.afterPrioritize acc).queue p } →
          ps'.termIntersectionForPackage p =
            (PartialSolution.termIntersectionForPackage { st.ps.afterPrioritize acc with
              queue := SmallMap.remove (st.ps.afterPrioritize acc).queue p } p).map (Term.mapH h) := by
        intro ps' e
        rw [e]
        exact PartialSolution.termIntersectionForPackage_mapH h _ p
      rw [ht]
      swap
      · rfl
      cases PartialSolution.termIntersectionForPackage { st.ps.afterPrioritize acc with
              queue := SmallMap.remove (st.ps.afterPrioritize acc).queue p } p with
      | none => rfl
      | some t =>
        simp only [Option.map_some, Incompat.unwrapPositive_mapH]
        cases t <;> rfl

theorem contains_added_mapH (h : VSetHom S V S' V') (l : List (P × V)) (p : P) (v : V) :
    (l.map fun kv => (kv.1, h.ι kv.2)).contains (p, h.ι v) = l.contains (p, v) := by
  rw [Bool.eq_iff_iff]
  simp only [List.contains_iff_mem, List.mem_map, Prod.mk.injEq]
  constructor
  · rintro ⟨⟨q, w⟩, hm, hq, hw⟩
    simp only at hq hw
    rw [h.ι_eq_iff] at hw
    subst hq hw
    exact hm
  · intro hm
    exact ⟨(p, v), hm, rfl, rfl⟩

theorem step_choosing (h : VSetHom S V S' V') (st : State P S V M Pr) (added : List (P × V)) (next : P)
    (fuel : Nat) (p : P) (t : Term S) (v : Option V) :
    Solver.step (E := E) (SolverState.mapH h ⟨st, added, next, .choosing p t, fuel⟩)
        (Answer.mapH h (.version v)) =
      (SolverState.mapH h (Solver.step (E := E) ⟨st, added, next, .choosing p t, fuel⟩ (.version v)).1,
       Request.mapH h (Solver.step (E := E) ⟨st, added, next, .choosing p t, fuel⟩ (.version v)).2) := by
  cases v with
  | none =>
    simp only [Solver.step, SolverState.mapH_mk, Phase.mapH, Answer.mapH, Option.map_none,
      Incompat.noVersions_mapH]
    cases Incompat.noVersions (V := V) (M := M) p t with
    | error f => rfl
    | ok inc =>
      simp only [exceptMap_ok, State.addIncompatibility_mapH]
      cases st.addIncompatibility inc <;> rfl
  | some v =>
    simp only [Solver.step, SolverState.mapH_mk, Phase.mapH, Answer.mapH, Option.map_some,
      Term.contains_mapH, contains_added_mapH, State.mapH_ps, State.mapH_debug,
      PartialSolution.addDecision_mapH]
    split
    · rfl
    · cases hc : added.contains (p, v) with
      | false => simp [SolverState.mapH, Phase.mapH, Request.mapH]
      | true =>
        simp only [Bool.not_true, Bool.false_eq_true, if_false]
        cases st.ps.addDecision st.debug p v <;> rfl

theorem step_fetching_unavailable (h : VSetHom S V S' V') (st : State P S V M Pr) (added : List (P × V))
    (next : P) (fuel : Nat) (p : P) (v : V) (m : M) :
    Solver.step (E := E) (SolverState.mapH h ⟨st, added, next, .fetching p v, fuel⟩)
        (Answer.mapH h (.unavailable m)) =
      (SolverState.mapH h (Solver.step (E := E) ⟨st, added, next, .fetching p v, fuel⟩ (.unavailable m)).1,
       Request.mapH h (Solver.step (E := E) ⟨st, added, next, .fetching p v, fuel⟩ (.unavailable m)).2) := by
  simp only [Solver.step, SolverState.mapH_mk, Phase.mapH, Answer.mapH, Incompat.customVersion_mapH,
    State.addIncompatibility_mapH]
  cases st.addIncompatibility (Incompat.customVersion p v m) <;> rfl

theorem step_fetching_available (h : VSetHom S V S' V') (st : State P S V M Pr) (added : List (P × V))
    (next : P) (fuel : Nat) (p : P) (v : V) (deps : List (P × S)) :
    Solver.step (E := E) (SolverState.mapH h ⟨st, added, next, .fetching p v, fuel⟩)
        (Answer.mapH h (.available deps)) =
      (SolverState.mapH h (Solver.step (E := E) ⟨st, added, next, .fetching p v, fuel⟩ (.available deps)).1,
       Request.mapH h (Solver.step (E := E) ⟨st, added, next, .fetching p v, fuel⟩ (.available deps)).2) := by
  simp only [Solver.step, SolverState.mapH_mk, Phase.mapH, Answer.mapH, depsMapH_eq,
    State.addIncompatibilityFromDependencies_mapH]
  cases st.addIncompatibilityFromDependencies p v deps with
  | error f => rfl
  | ok x =>
    obtain ⟨st1, start, stop⟩ := x
    simp only [exceptMap_ok, State.mapH_store, State.mapH_ps, State.mapH_debug, ← List.map_drop,
      ← List.map_take, PartialSolution.addVersion_mapH]
    cases st1.ps.addVersion st1.debug p v (List.take (stop - start) (List.drop start st1.store)) <;> rfl

theorem step_mapH_aux (h : VSetHom S V S' V') (s : SolverState P S V M Pr) (a : Answer P S V M Pr E) :
    Solver.step (SolverState.mapH h s) (Answer.mapH h a) =
      (SolverState.mapH h (Solver.step s a).1, Request.mapH h (Solver.step s a).2) := by
  obtain ⟨st, added, next, phase, fuel⟩ := s
  cases phase <;> cases a <;> try rfl
  · exact step_cancel_ok h _ _ _ _
  · exact step_prioritizing h _ _ _ _ _ _ _ _
  · exact step_picking h _ _ _ _ _ _
  · exact step_choosing h _ _ _ _ _ _ _
  · exact step_fetching_unavailable h _ _ _ _ _ _ _
  · exact step_fetching_available h _ _ _ _ _ _ _

end SolverLemmas
end Pubgrub

/-
Helpers for `CollapseNoPanic.lean`, part 1: the two invariants added on top of the existing run-level
invariants, and their preservation by the functions of the partial solution and by the growth of the
store.

* `StoreCK` (store level): (J) every stored `noVersions root s` clause has `rv ∈ s`; (D) the two causes
  of every stored `derivedFrom a b` clause exist and are not a `noVersions` clause beside a `notRoot`
  clause.
* `PartialSolution.RW` (partial solution): every accumulated term of the root package is included in
  `{rv}`.
-/
import PubgrubProofs.TreeLink
import PubgrubProofs.CollapseSound
import PubgrubProofs.SatisfierTheory
import PubgrubProofs.NonEmpty

set_option linter.unusedSectionVars false
set_option linter.unusedVariables false

namespace Pubgrub
open VersionSet

section
variable {P S V M Pr : Type} [DecidableEq P] [VersionSet S V] [DecidableEq S] [LawfulVersionSet S V]

/-! ### definitions -/

def Kind.isNoVersionsK : Kind P S V M → Bool
  | .noVersions _ _ => true
  | _ => false

def Kind.isNotRootK : Kind P S V M → Bool
  | .notRoot _ _ => true
  | _ => false

/-- the pair of cause kinds on which `collapse_no_versions` panics -/
def Kind.BadPair (k1 k2 : Kind P S V M) : Prop :=
  (k1.isNoVersionsK = true ∧ k2.isNotRootK = true) ∨ (k1.isNotRootK = true ∧ k2.isNoVersionsK = true)

/-- (J) and (D) for one stored clause -/
def Incompat.CK (root : P) (rv : V) (store : List (Incompat P S V M)) (i : Incompat P S V M) : Prop :=
  match i.kind with
  | .noVersions p s => p = root → contains s rv = true
  | .derivedFrom a b =>
      ∃ ia ib, store[a]? = some ia ∧ store[b]? = some ib ∧ ¬ Kind.BadPair ia.kind ib.kind
  | _ => True

/-- (J) and (D) for the store -/
def StoreCK (root : P) (rv : V) (store : List (Incompat P S V M)) : Prop :=
  ∀ (id : Nat) (i : Incompat P S V M), store[id]? = some i → i.CK root rv store

/-- every accumulated term of the root package is included in `{rv}` -/
def PartialSolution.RW (root : P) (rv : V) (ps : PartialSolution P S V Pr) : Prop :=
  ∀ p pa, (p, pa) ∈ ps.assignments → p = root →
    ∀ dd ∈ pa.dated, dd.accumulated.Imp (Term.exact rv : Term S)

/-! ### growth of the store -/

theorem Incompat.CK.append {root : P} {rv : V} {store : List (Incompat P S V M)}
    (extra : List (Incompat P S V M)) {i : Incompat P S V M} (h : i.CK root rv store) :
    i.CK root rv (store ++ extra) := by
  unfold Incompat.CK at h ⊢
  cases hk : i.kind with
  | derivedFrom a b =>
    rw [hk] at h
    simp only at h ⊢
    obtain ⟨ia, ib, ha, hb, hn⟩ := h
    refine ⟨ia, ib, ?_, ?_, hn⟩
    · rw [List.getElem?_append_left (List.getElem?_eq_some_iff.1 ha).1]; exact ha
    · rw [List.getElem?_append_left (List.getElem?_eq_some_iff.1 hb).1]; exact hb
  | _ => rw [hk] at h; exact h

theorem storeCK_append {root : P} {rv : V} {store extra : List (Incompat P S V M)}
    (h : StoreCK root rv store) (hx : ∀ i ∈ extra, i.CK root rv (store ++ extra)) :
    StoreCK root rv (store ++ extra) := by
  intro id i hi
  by_cases hlt : id < store.length
  · rw [List.getElem?_append_left hlt] at hi
    exact (h id i hi).append extra
  · rw [List.getElem?_append_right (Nat.le_of_not_lt hlt)] at hi
    exact hx i (List.mem_of_getElem? hi)

theorem storeCK_push {root : P} {rv : V} {store : List (Incompat P S V M)} {i : Incompat P S V M}
    (h : StoreCK root rv store) (hi : i.CK root rv store) : StoreCK root rv (store ++ [i]) := by
  apply storeCK_append h
  intro j hj
  rw [List.mem_singleton] at hj
  subst hj
  exact hi.append _

/-- a clause whose kind is neither `noVersions` nor `derivedFrom` -/
theorem Incompat.ck_of_kind {root : P} {rv : V} {store : List (Incompat P S V M)} {i : Incompat P S V M}
    (h1 : ∀ p s, i.kind ≠ .noVersions p s) (h2 : ∀ a b, i.kind ≠ .derivedFrom a b) :
    i.CK root rv store := by
  unfold Incompat.CK
  cases hk : i.kind with
  | noVersions p s => exact absurd hk (h1 p s)
  | derivedFrom a b => exact absurd hk (h2 a b)
  | _ => trivial

theorem Incompat.ck_fromDependency {root : P} {rv : V} {store : List (Incompat P S V M)}
    (p : P) (s : S) (d : P × S) : (Incompat.fromDependency (M := M) p s d).CK root rv store :=
  Incompat.ck_of_kind (fun _ _ h => by simp [Incompat.fromDependency] at h)
    (fun _ _ h => by simp [Incompat.fromDependency] at h)

theorem Incompat.ck_customVersion {root : P} {rv : V} {store : List (Incompat P S V M)}
    (p : P) (v : V) (m : M) : (Incompat.customVersion (S := S) p v m).CK root rv store :=
  Incompat.ck_of_kind (fun _ _ h => by simp [Incompat.customVersion] at h)
    (fun _ _ h => by simp [Incompat.customVersion] at h)

theorem storeCK_init (root : P) (rv : V) :
    StoreCK root rv [(Incompat.notRoot root rv : Incompat P S V M)] := by
  intro id i hi
  cases id with
  | zero =>
    simp at hi; subst hi
    exact Incompat.ck_of_kind (fun _ _ h => by simp [Incompat.notRoot] at h)
      (fun _ _ h => by simp [Incompat.notRoot] at h)
  | succ k => simp at hi

/-- the result of `merge_dependents` is a dependency clause -/
theorem Incompat.mergeDependents_ck {root : P} {rv : V} {store : List (Incompat P S V M)}
    {a b r : Incompat P S V M} (h : a.mergeDependents b = .ok (some r)) : r.CK root rv store := by
  unfold Incompat.mergeDependents at h
  split at h
  · split at h
    · cases h
    dsimp only at h
    split at h
    · cases h
    simp only [bind, Except.bind, pure, Except.pure] at h
    split at h
    · cases h
    split at h
    · cases h
    split at h
    · cases h
    split at h
    · cases h
    split at h
    · injection h with h; injection h with h; subst h
      exact Incompat.ck_fromDependency _ _ _
    · split at h
      · cases h
      injection h with h; injection h with h; subst h
      exact Incompat.ck_fromDependency _ _ _
  · cases h

namespace State

theorem mergeIncompatibility_ck {root : P} {rv : V} {st st' : State P S V M Pr} {id : Nat}
    (hr : mergeIncompatibility st id = .ok st') (h : StoreCK root rv st.store) :
    StoreCK root rv st'.store := by
  obtain ⟨_, _, _, inc, _, hc⟩ := mergeIncompatibility_spec hr
  rcases hc with ⟨e, _⟩ | ⟨past, pastInc, merged, _, hm, e, _⟩
  · rw [e]; exact h
  · rw [e]; exact storeCK_push h (Incompat.mergeDependents_ck hm)

theorem addIncompatibility_ck {root : P} {rv : V} {st st' : State P S V M Pr} {inc : Incompat P S V M}
    (hr : addIncompatibility st inc = .ok st') (h : StoreCK root rv st.store)
    (g : inc.CK root rv st.store) : StoreCK root rv st'.store := by
  unfold addIncompatibility at hr
  exact mergeIncompatibility_ck hr (storeCK_push h g)

theorem foldlM_merge_ck {root : P} {rv : V} :
    ∀ (ids : List Nat) {st st' : State P S V M Pr},
    ids.foldlM (m := R) (fun st id => mergeIncompatibility st id) st = .ok st' →
    StoreCK root rv st.store → StoreCK root rv st'.store := by
  intro ids
  induction ids with
  | nil =>
    intro st st' hr h
    simp only [List.foldlM_nil, pure, Except.pure] at hr
    injection hr with hr; subst hr; exact h
  | cons a rest ih =>
    intro st st' hr h
    simp only [List.foldlM_cons, bind, Except.bind] at hr
    split at hr
    · cases hr
    rename_i st1 h1
    exact ih hr (mergeIncompatibility_ck h1 h)

theorem addIncompatibilityFromDependencies_ck {root : P} {rv : V}
    {st st' : State P S V M Pr} {p : P} {v : V} {deps : List (P × S)} {start stop : Nat}
    (hr : addIncompatibilityFromDependencies st p v deps = .ok (st', start, stop))
    (h : StoreCK root rv st.store) : StoreCK root rv st'.store := by
  unfold addIncompatibilityFromDependencies at hr
  simp only [bind, Except.bind, pure, Except.pure] at hr
  split at hr
  · cases hr
  rename_i st1 h1
  injection hr with hr; injection hr with hr; subst hr
  refine foldlM_merge_ck _ h1 ?_
  apply storeCK_append h
  intro i hi
  rw [List.mem_map] at hi
  obtain ⟨d, _, rfl⟩ := hi
  exact Incompat.ck_fromDependency _ _ _

theorem backtrack_ck {root : P} {rv : V} {st st' : State P S V M Pr} {incompat : Nat} {changed : Bool}
    {dl : Nat} (hr : st.backtrack incompat changed dl = .ok st') (h : StoreCK root rv st.store) :
    StoreCK root rv st'.store := by
  unfold State.backtrack at hr
  simp only [bind, Except.bind, pure, Except.pure] at hr
  split at hr
  · cases hr
  split at hr
  · exact mergeIncompatibility_ck hr h
  · injection hr with hr; subst hr; exact h

end State

/-! ### the functions of the partial solution keep the root's terms inside `{rv}` -/

namespace PartialSolution

theorem rw_empty (root : P) (rv : V) : (PartialSolution.empty : PartialSolution P S V Pr).RW root rv := by
  intro p pa h; simp [PartialSolution.empty] at h

theorem RW.congr {root : P} {rv : V} {ps ps' : PartialSolution P S V Pr} (h : ps.RW root rv)
    (e : ps'.assignments = ps.assignments) : ps'.RW root rv := by
  intro p pa hm
  rw [e] at hm
  exact h p pa hm

theorem rw_set {root : P} {rv : V} {l : List (P × PackageAssignments S V)}
    (h : ∀ p pa, (p, pa) ∈ l → p = root → ∀ dd ∈ pa.dated, dd.accumulated.Imp (Term.exact rv : Term S))
    (i : Nat) (x : P × PackageAssignments S V)
    (hx : x.1 = root → ∀ dd ∈ x.2.dated, dd.accumulated.Imp (Term.exact rv : Term S)) :
    ∀ p pa, (p, pa) ∈ l.set i x → p = root →
      ∀ dd ∈ pa.dated, dd.accumulated.Imp (Term.exact rv : Term S) := by
  intro p pa hkv
  rcases List.mem_or_eq_of_mem_set hkv with h' | h'
  · exact h p pa h'
  · subst h'; exact hx

theorem rw_swap {root : P} {rv : V} {l l' : List (P × PackageAssignments S V)}
    (h : ∀ p pa, (p, pa) ∈ l → p = root → ∀ dd ∈ pa.dated, dd.accumulated.Imp (Term.exact rv : Term S))
    (i j : Nat) (hs : swapIndices l i j = .ok l') :
    ∀ p pa, (p, pa) ∈ l' → p = root →
      ∀ dd ∈ pa.dated, dd.accumulated.Imp (Term.exact rv : Term S) := by
  unfold swapIndices at hs
  split at hs
  · rename_i a b ha hb
    injection hs with hs; subst hs
    have ha' := List.mem_of_getElem? ha
    have hb' := List.mem_of_getElem? hb
    exact rw_set (rw_set h i b (h b.1 b.2 hb')) j a (h a.1 a.2 ha')
  · cases hs

theorem addDecision_rw {root : P} {rv : V} {ps ps' : PartialSolution P S V Pr} {debug : Bool} {p : P}
    {v : V} (h : ps.RW root rv) (hr : addDecision debug ps p v = .ok ps') : ps'.RW root rv := by
  replace hr := addDecision_core hr
  unfold addDecisionCore at hr
  simp only [bind, Except.bind, pure, Except.pure] at hr
  split at hr
  · cases hr
  rename_i oldIdx hold
  split at hr
  · cases hr
  rename_i pa hpa
  have hpav := h p pa (SmallMap.mem_of_get (unwrapOr_ok hpa))
  have hset := rw_set h oldIdx
      (p, { pa with highest := ps.currentDecisionLevel + 1,
                    inter := .decision ps.nextGlobalIndex v (Term.exact v) })
      hpav
  split at hr
  · split at hr
    · cases hr
    rename_i asg hasg
    injection hr with hr; subst hr
    exact rw_swap hset _ _ hasg
  · injection hr with hr; subst hr; exact hset

theorem addVersion_rw {root : P} {rv : V} {ps ps' : PartialSolution P S V Pr} {debug : Bool} {p : P}
    {v : V} {news : List (Incompat P S V M)}
    (h : ps.RW root rv) (hr : addVersion debug ps p v news = .ok ps') : ps'.RW root rv := by
  unfold addVersion at hr
  split at hr
  · exact addDecision_rw h hr
  · simp only at hr
    split at hr
    · exact addDecision_rw h hr
    · injection hr with hr; subst hr; exact h

end PartialSolution

/-- a backtrack only removes accumulated terms -/
theorem BtStep.rw {root : P} {rv : V} {ps ps' : PartialSolution P S V Pr} {dl : Nat}
    (hbt : BtStep ps ps' dl) (hw : ps.WF') (h : ps.RW root rv) : ps'.RW root rv := by
  intro q qa' hq hroot
  obtain ⟨qa, hm, hg⟩ := hbt.mem hq
  have hold := h q qa hm hroot
  rcases (PartialSolution.btG_eq_some (hw.wfx _ hm) hg).2 with ⟨_, e⟩ | ⟨_, _, last, hl, e⟩
  · simp only at e; subst e; exact hold
  · simp only at e; subst e
    exact fun dd hdd => hold dd (PartialSolution.mem_popWhileAbove dl _ dd hdd)

end
end Pubgrub

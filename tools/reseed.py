#!/usr/bin/env python3
"""
tools/reseed.py <seed-id> <property> [more properties...]
Re-run checks against a stored seeded change: applies /verif/seeded/<seed-id>/patch.diff to /repo,
runs ./check <property> quick for each listed property, undoes the patch (git -C /repo checkout -- .),
and rewrites checks_on_patched_repo / caught_by in the seed's meta.json.
"""
import json, os, subprocess, sys
V = os.path.dirname(os.path.dirname(os.path.abspath(__file__)))
sid, props = sys.argv[1], sys.argv[2:]
d = os.path.join(V, "seeded", sid)
meta = json.load(open(os.path.join(d, "meta.json")))
st = subprocess.run("git -C /repo status --short", shell=True, capture_output=True, text=True).stdout.strip()
assert st == "", "/repo is not clean: " + st
r = subprocess.run(f"git -C /repo apply {d}/patch.diff", shell=True, capture_output=True, text=True)
assert r.returncode == 0, r.stderr
res = {}
try:
    for p in props:
        r = subprocess.run(["./check", p, "quick"], cwd=V, capture_output=True, text=True, timeout=3600)
        lines = [l for l in r.stdout.splitlines() if l.startswith(("VIOLATION", "OK", "KNOWN-FINDING"))]
        res[p] = {"exit": r.returncode, "lines": lines}
finally:
    subprocess.run("git -C /repo checkout -- .", shell=True)
meta.setdefault("checks_on_patched_repo", {}).update(res)
caught = sorted(p for p, v in meta["checks_on_patched_repo"].items() if v.get("exit") == 1)
meta["caught_by"] = caught
meta.pop("lines", None)
json.dump(meta, open(os.path.join(d, "meta.json"), "w"), indent=1)
print(sid, {p: (v["exit"], v["lines"][-1:] ) for p, v in res.items()})

/-
Exact models of `/repo/src/internal/small_vec.rs` (`SmallVec<T>`: the storage of `Range`'s segments) and
`/repo/src/internal/small_map.rs` (`SmallMap<K, V>`: the storage of an incompatibility's terms), variant by
variant (`Empty | One | Two | Flexible`).  The rest of the model abstracts both: `Range V` is the list
`SmallVecX.toList`, `SmallMap K T` (PubgrubModel/SmallMap.lean) is the association list
`SmallMapX.toAssoc`; PubgrubProofs/ContainersLaws.lean proves that every operation commutes with these
abstractions, and that `==` and `Hash` of a `SmallVec` depend on `toList` only (property C16's "equal ranges
hash equally" rests on this).
`Flexible` of `SmallMap` holds an `FxHashMap`: a list with distinct keys whose order is not observable
(the driver prints it sorted by key).
-/
import PubgrubModel.SmallMap

namespace Pubgrub

/-- `enum SmallVec<T>` -/
inductive SmallVecX (T : Type) where
  | empty
  | one (a : T)
  | two (a b : T)
  | flexible (v : List T)
  deriving Repr

namespace SmallVecX
variable {T : Type}

/-- `as_slice` -/
def toList : SmallVecX T → List T
  | empty => []
  | one a => [a]
  | two a b => [a, b]
  | flexible v => v

/-- `push` -/
def push : SmallVecX T → T → SmallVecX T
  | empty, x => one x
  | one a, x => two a x
  | two a b, x => flexible [a, b, x]
  | flexible v, x => flexible (v ++ [x])

/-- `pop` -/
def pop : SmallVecX T → Option T × SmallVecX T
  | empty => (none, empty)
  | one a => (some a, empty)
  | two a b => (some b, one a)
  | flexible v => (v.getLast?, flexible v.dropLast)

/-- `clear` -/
def clear : SmallVecX T → SmallVecX T
  | flexible _ => flexible []
  | _ => empty

/-- `len` (through `Deref<Target = [T]>`) -/
def len (s : SmallVecX T) : Nat := s.toList.length

/-- `PartialEq`: slices compared -/
def beq [DecidableEq T] (a b : SmallVecX T) : Bool := decide (a.toList = b.toList)

/-- what `Hash::hash` feeds to the hasher: the length, then the slice -/
def hashFeed (s : SmallVecX T) : Nat × List T := (s.len, s.toList)

/-- the variant, for the transcript -/
def tag : SmallVecX T → String
  | empty => "E" | one _ => "1" | two _ _ => "2" | flexible _ => "F"

end SmallVecX

/-- `enum SmallMap<K, V>` -/
inductive SmallMapX (K V : Type) where
  | empty
  | one (k : K) (v : V)
  | two (k1 : K) (v1 : V) (k2 : K) (v2 : V)
  | flexible (data : List (K × V))
  deriving Repr

namespace SmallMapX
variable {K V : Type} [DecidableEq K]

/-- `iter()` as a list (for `Flexible`: *an* enumeration) -/
def toAssoc : SmallMapX K V → List (K × V)
  | empty => []
  | one k v => [(k, v)]
  | two k1 v1 k2 v2 => [(k1, v1), (k2, v2)]
  | flexible d => d

/-- `get` -/
def get : SmallMapX K V → K → Option V
  | empty, _ => none
  | one k v, key => if k = key then some v else none
  | two k1 v1 k2 v2, key => if key = k1 then some v1 else if key = k2 then some v2 else none
  | flexible d, key => SmallMap.get d key

/-- `remove` -/
def remove : SmallMapX K V → K → Option V × SmallMapX K V
  | empty, _ => (none, empty)
  | one k v, key => if key = k then (some v, empty) else (none, one k v)
  | two k1 v1 k2 v2, key =>
    if key = k1 then (some v1, one k2 v2)
    else if key = k2 then (some v2, one k1 v1)
    else (none, two k1 v1 k2 v2)
  | flexible d, key => (SmallMap.get d key, flexible (SmallMap.remove d key))

/-- `insert` -/
def insert : SmallMapX K V → K → V → SmallMapX K V
  | empty, key, value => one key value
  | one k v, key, value => if key = k then one k value else two k v key value
  | two k1 v1 k2 v2, key, value =>
    if key = k1 then two k1 value k2 v2
    else if key = k2 then two k1 v1 k2 value
    else flexible [(k1, v1), (k2, v2), (key, value)]
  | flexible d, key, value => flexible (SmallMap.insert d key value)

/-- `split_one` -/
def splitOne : SmallMapX K V → K → Option (V × SmallMapX K V)
  | empty, _ => none
  | one k v, key => if k = key then some (v, empty) else none
  | two k1 v1 k2 v2, key =>
    if k1 = key then some (v1, one k2 v2)
    else if k2 = key then some (v2, one k1 v1)
    else none
  | flexible d, key =>
    match SmallMap.get d key with
    | some value => some (value, flexible (SmallMap.remove d key))
    | none => none

/-- one step of `merge` -/
def mergeStep (f : V → V → Option V) (acc : SmallMapX K V) (kv : K × V) : SmallMapX K V :=
  match acc.get kv.1 with
  | none => acc.insert kv.1 kv.2
  | some v1 =>
    match f v1 kv.2 with
    | none => (acc.remove kv.1).2
    | some merged => acc.insert kv.1 merged   -- `*val_1 = merged_value`

/-- `merge` -/
def merge (m : SmallMapX K V) (m2 : List (K × V)) (f : V → V → Option V) : SmallMapX K V :=
  m2.foldl (mergeStep f) m

/-- `len` -/
def len : SmallMapX K V → Nat
  | empty => 0
  | one _ _ => 1
  | two _ _ _ _ => 2
  | flexible d => d.length

/-- the variant, for the transcript -/
def tag : SmallMapX K V → String
  | empty => "E" | one _ _ => "1" | two _ _ _ _ => "2" | flexible _ => "F"

end SmallMapX
end Pubgrub

/-
Membership laws of the Range operations (property C10, first half).
Helper lemmas first (intersection, complement, union); the target theorems are at the end of the file.
-/
import PubgrubProofs.RangeSetAux

namespace Pubgrub.Range
open Pubgrub Bound
variable {V : Type} [LinearOrder V]

/-! ### intersection helpers -/

theorem aboveStart_interStart (v : V) (a b : Bound V) :
    aboveStart v (interStart a b) ↔ aboveStart v a ∧ aboveStart v b := by
  cases a <;> cases b <;> simp only [interStart] <;> (try split) <;>
    simp only [aboveStart, and_true, true_and] <;>
    (constructor <;> intro h <;> (try constructor) <;> order)

theorem valid_interStart {ls rs e : Bound V} (h1 : validSegment ls e = true)
    (h2 : validSegment rs e = true) : validSegment (interStart ls rs) e = true := by
  cases ls <;> cases rs <;> simp only [interStart] <;> (try split) <;> assumption

theorem gap_interStart_left {e ls : Bound V} (rs : Bound V)
    (h : endBeforeStartWithGap e ls = true) : endBeforeStartWithGap e (interStart ls rs) = true := by
  cases e <;> cases ls <;> cases rs <;> simp only [interStart] <;> (try split) <;>
    simp_all [endBeforeStartWithGap] <;> order

theorem gap_interStart_right {e rs : Bound V} (ls : Bound V)
    (h : endBeforeStartWithGap e rs = true) : endBeforeStartWithGap e (interStart ls rs) = true := by
  cases e <;> cases ls <;> cases rs <;> simp only [interStart] <;> (try split) <;>
    simp_all [endBeforeStartWithGap] <;> order

theorem mem_intersection (a b : Range V) (ha : WF a) (hb : WF b) (v : V) :
    Range.Mem v (intersection a b) ↔ Range.Mem v a ∧ Range.Mem v b := by
  fun_induction intersection a b with
  | case1 ls le l rs re r hsm hv ih =>
    rw [wf_cons] at ha
    have ih := ih ha.2.2 hb
    rw [wf_cons] at hb
    have hr : Range.Mem v r → _ := tail_beyond hb.2.1 hb.2.2 v
    have hm := belowEnd_mono hsm v
    simp only [mem_cons, Seg.Mem, aboveStart_interStart] at *
    rw [ih]; grind
  | case2 ls le l rs re r hsm hv ih =>
    rw [wf_cons] at ha
    have ih := ih ha.2.2 hb
    rw [wf_cons] at hb
    have hr : Range.Mem v r → _ := tail_beyond hb.2.1 hb.2.2 v
    have hm := belowEnd_mono hsm v
    have hnv := not_valid (by simpa using hv) v
    simp only [mem_cons, Seg.Mem] at *
    rw [ih]; grind
  | case3 ls le l rs re r hsm hv ih =>
    rw [wf_cons] at hb
    have ih := ih ha hb.2.2
    rw [wf_cons] at ha
    have hr : Range.Mem v l → _ := tail_beyond ha.2.1 ha.2.2 v
    have hm := belowEnd_mono' (by simpa using hsm) v
    simp only [mem_cons, Seg.Mem, aboveStart_interStart] at *
    rw [ih]; grind
  | case4 ls le l rs re r hsm hv ih =>
    rw [wf_cons] at hb
    have ih := ih ha hb.2.2
    rw [wf_cons] at ha
    have hr : Range.Mem v l → _ := tail_beyond ha.2.1 ha.2.2 v
    have hm := belowEnd_mono' (by simpa using hsm) v
    have hnv := not_valid (by simpa using hv) v
    simp only [mem_cons, Seg.Mem] at *
    rw [ih]; grind
  | case5 => simp [mem_nil]
  | case6 => simp [mem_nil]

theorem gapHead_intersection (e : Bound V) (a b : Range V) (ha : WF a) (hb : WF b)
    (h : GapHead e a ∨ GapHead e b) : GapHead e (intersection a b) := by
  fun_induction intersection a b with
  | case1 ls le l rs re r hsm hv ih =>
    simp only [gapHead_cons] at *
    rcases h with h | h
    · exact gap_interStart_left _ h
    · exact gap_interStart_right _ h
  | case2 ls le l rs re r hsm hv ih =>
    rw [wf_cons] at ha
    apply ih ha.2.2 hb
    rcases h with h | h
    · left
      intro x hx
      exact gap_trans (by simpa [gapHead_cons] using h) ha.1 (ha.2.1 x hx)
    · right; exact h
  | case3 ls le l rs re r hsm hv ih =>
    simp only [gapHead_cons] at *
    rcases h with h | h
    · exact gap_interStart_left _ h
    · exact gap_interStart_right _ h
  | case4 ls le l rs re r hsm hv ih =>
    rw [wf_cons] at hb
    apply ih ha hb.2.2
    rcases h with h | h
    · left; exact h
    · right
      intro x hx
      exact gap_trans (by simpa [gapHead_cons] using h) hb.1 (hb.2.1 x hx)
  | case5 => exact gapHead_nil _
  | case6 => exact gapHead_nil _

theorem wf_intersection' (a b : Range V) (ha : WF a) (hb : WF b) : WF (intersection a b) := by
  fun_induction intersection a b with
  | case1 ls le l rs re r hsm hv ih =>
    have ha' := (wf_cons _ _ _).1 ha
    have hb' := (wf_cons _ _ _).1 hb
    rw [wf_cons]
    refine ⟨valid_interStart ha'.1 hv, ?_, ih ha'.2.2 hb⟩
    exact gapHead_intersection _ _ _ ha'.2.2 hb (Or.inl ha'.2.1)
  | case2 ls le l rs re r hsm hv ih =>
    exact ih ((wf_cons _ _ _).1 ha).2.2 hb
  | case3 ls le l rs re r hsm hv ih =>
    have ha' := (wf_cons _ _ _).1 ha
    have hb' := (wf_cons _ _ _).1 hb
    rw [wf_cons]
    refine ⟨valid_interStart hv hb'.1, ?_, ih ha hb'.2.2⟩
    exact gapHead_intersection _ _ _ ha hb'.2.2 (Or.inr hb'.2.1)
  | case4 ls le l rs re r hsm hv ih =>
    exact ih ha ((wf_cons _ _ _).1 hb).2.2
  | case5 => exact wf_nil
  | case6 => exact wf_nil


/-! ### complement helpers -/

theorem above_flipB {e : Bound V} (he : e ≠ unb) (v : V) : aboveStart v (flipB e) ↔ ¬ belowEnd v e := by
  cases e <;> simp_all [flipB, aboveStart, belowEnd]

theorem below_flipB {s : Bound V} (hs : s ≠ unb) (v : V) : belowEnd v (flipB s) ↔ ¬ aboveStart v s := by
  cases s <;> simp_all [flipB, aboveStart, belowEnd]

theorem gap_ne_unb {e s : Bound V} (h : endBeforeStartWithGap e s = true) : e ≠ unb ∧ s ≠ unb := by
  cases e <;> cases s <;> simp_all [endBeforeStartWithGap]

theorem valid_flip_of_gap {e s : Bound V} (h : endBeforeStartWithGap e s = true) :
    validSegment (flipB e) (flipB s) = true := by
  cases e <;> cases s <;> simp_all [endBeforeStartWithGap, validSegment, flipB]

theorem gapHead_negateSegments {s e : Bound V} (t : Range V) (hs : s ≠ unb)
    (hv : validSegment s e = true) (hg : GapHead e t) :
    GapHead (flipB s) (negateSegments (flipB e) t) := by
  cases t with
  | nil =>
    cases s <;> cases e <;>
      simp_all [negateSegments, GapHead, flipB, endBeforeStartWithGap, validSegment]
  | cons y t =>
    obtain ⟨a, b⟩ := y
    have := (gap_ne_unb ((gapHead_cons _ _ _).1 hg)).1
    cases s <;> cases e <;>
      simp_all [negateSegments, GapHead, flipB, endBeforeStartWithGap, validSegment]

theorem negateSegments_spec (e : Bound V) (t : Range V) (hg : GapHead e t) (ht : WF t) :
    WF (negateSegments (flipB e) t) ∧
      ∀ v, Range.Mem v (negateSegments (flipB e) t) ↔ ¬ belowEnd v e ∧ ¬ Range.Mem v t := by
  induction t generalizing e with
  | nil =>
    refine ⟨?_, fun v => ?_⟩
    · cases e <;> simp [negateSegments, flipB, wf_nil, wf_cons, validSegment, gapHead_nil]
    · cases e <;> simp [negateSegments, flipB, mem_nil, mem_cons, Seg.Mem, aboveStart, belowEnd]
  | cons y t ih =>
    obtain ⟨v1, v2⟩ := y
    rw [wf_cons] at ht
    obtain ⟨hval, hg', ht'⟩ := ht
    rw [gapHead_cons] at hg
    obtain ⟨he, hv1⟩ := gap_ne_unb hg
    obtain ⟨ihwf, ihmem⟩ := ih v2 hg' ht'
    simp only [negateSegments]
    refine ⟨?_, fun v => ?_⟩
    · rw [wf_cons]
      exact ⟨valid_flip_of_gap hg, gapHead_negateSegments t hv1 hval hg', ihwf⟩
    · have h1 := not_below_of_gap hg v
      have h2 := above_of_not_below hval v
      have h3 := tail_beyond hg' ht' v
      simp only [mem_cons, Seg.Mem, ihmem, above_flipB he, below_flipB hv1] at *
      grind

theorem complement_spec (a : Range V) (ha : WF a) :
    WF (complement a) ∧ ∀ v, Range.Mem v (complement a) ↔ ¬ Range.Mem v a := by
  cases a with
  | nil => simp [complement, full, wf_cons, wf_nil, gapHead_nil, validSegment, mem_cons, mem_nil,
      Seg.Mem, aboveStart, belowEnd]
  | cons y t =>
    obtain ⟨s, e⟩ := y
    rw [wf_cons] at ha
    obtain ⟨hval, hg, ht⟩ := ha
    have hspec := negateSegments_spec e t hg ht
    have htb := tail_beyond hg ht
    cases s <;> cases e <;>
      simp only [complement, negateSegments, flipB, empty, strictlyLowerThan, lowerThan] at * <;>
      refine ⟨?_, fun v => ?_⟩
    all_goals first
      | exact hspec.1
      | exact wf_nil
      | (rw [wf_cons]
         first
           | exact ⟨rfl, gapHead_negateSegments (s := incl _) t (by simp) hval hg, hspec.1⟩
           | exact ⟨rfl, gapHead_negateSegments (s := excl _) t (by simp) hval hg, hspec.1⟩
           | exact ⟨rfl, gapHead_nil _, wf_nil⟩)
      | (have h1 := htb v
         have h2 := above_of_not_below hval v
         simp only [mem_cons, mem_nil, Seg.Mem, hspec.2, aboveStart, belowEnd] at *
         grind)


/-! ### union helpers -/

theorem belowEnd_unionEnd (v : V) (x y : Bound V) :
    belowEnd v (unionEnd x y) ↔ belowEnd v x ∨ belowEnd v y := by
  cases x <;> cases y <;> simp only [unionEnd] <;> (repeat' split) <;>
    simp only [belowEnd, or_true, true_or] <;>
    (constructor <;> intro h <;> (try rcases h with h | h) <;>
      order)

theorem valid_unionEnd {s e : Bound V} (e' : Bound V) (h : validSegment s e = true) :
    validSegment s (unionEnd e e') = true := by
  cases s <;> cases e <;> cases e' <;> simp only [unionEnd] <;> (repeat' split) <;>
    simp_all [validSegment] <;> order

/-- the first segment of `t` (if any) starts at or after `s` -/
def StartLEHead (s : Bound V) (t : Range V) : Prop :=
  ∀ x ∈ t.head?, leftStartIsSmaller s x.1 = true

theorem startLEHead_nil (s : Bound V) : StartLEHead s ([] : Range V) := by simp [StartLEHead]
theorem startLEHead_cons (s : Bound V) (x : Seg V) (t : Range V) :
    StartLEHead s (x :: t) ↔ leftStartIsSmaller s x.1 = true := by simp [StartLEHead]

theorem startLEHead_trans {a b : Bound V} {t : Range V} (h : leftStartIsSmaller a b = true)
    (ht : StartLEHead b t) : StartLEHead a t :=
  fun x hx => lss_trans h (ht x hx)

theorem startLEHead_tail {s : Seg V} {t : Range V} (h : WF (s :: t)) : StartLEHead s.1 t := by
  obtain ⟨s1, s2⟩ := s
  rw [wf_cons] at h
  exact fun x hx => lss_of_valid_gap h.1 (h.2.1 x hx)

theorem wf_head_valid {s : Seg V} {t : Range V} (h : WF (s :: t)) : validSegment s.1 s.2 = true := by
  obtain ⟨s1, s2⟩ := s
  rw [wf_cons] at h
  exact h.1

theorem wf_tail {s : Seg V} {t : Range V} (h : WF (s :: t)) : WF t := by
  obtain ⟨s1, s2⟩ := s
  rw [wf_cons] at h
  exact h.2.2

theorem unionAccum_inv (acc : Option (Seg V)) (s : Seg V) (hs : validSegment s.1 s.2 = true)
    (hacc : ∀ a ∈ acc, validSegment a.1 a.2 = true ∧ leftStartIsSmaller a.1 s.1 = true) :
    validSegment (unionAccum acc s).2.1 (unionAccum acc s).2.2 = true ∧
      leftStartIsSmaller (unionAccum acc s).2.1 s.1 = true := by
  cases acc with
  | none => simpa [unionAccum, lss_refl] using hs
  | some a =>
    obtain ⟨hva, hle⟩ := hacc a rfl
    simp only [unionAccum]
    split
    · exact ⟨hs, lss_refl _⟩
    · exact ⟨valid_unionEnd _ hva, hle⟩

theorem union_step (acc : Option (Seg V)) (s : Seg V) (P : V → Prop) (G : Range V)
    (hacc : ∀ a ∈ acc, validSegment a.1 a.2 = true ∧ leftStartIsSmaller a.1 s.1 = true)
    (hG : WF G ∧ (∀ x ∈ G.head?, x.1 = (unionAccum acc s).2.1) ∧
      ∀ v, Range.Mem v G ↔ Seg.Mem v (unionAccum acc s).2 ∨ P v) :
    WF ((unionAccum acc s).1 ++ G) ∧
      (∀ a ∈ acc, ∀ x ∈ ((unionAccum acc s).1 ++ G).head?, x.1 = a.1) ∧
      ∀ v, Range.Mem v ((unionAccum acc s).1 ++ G) ↔
        (∃ a ∈ acc, Seg.Mem v a) ∨ Seg.Mem v s ∨ P v := by
  cases acc with
  | none =>
    simp only [unionAccum, List.nil_append] at *
    exact ⟨hG.1, by simp, fun v => by simp [hG.2.2]⟩
  | some a =>
    obtain ⟨hva, hle⟩ := hacc a rfl
    obtain ⟨a1, a2⟩ := a
    obtain ⟨s1, s2⟩ := s
    obtain ⟨hwf, hhead, hmem⟩ := hG
    simp only [unionAccum] at *
    by_cases hgap : endBeforeStartWithGap a2 s1 = true
    · simp only [if_pos hgap, List.cons_append, List.nil_append] at hhead hmem ⊢
      refine ⟨?_, by simp, fun v => ?_⟩
      · rw [wf_cons]
        refine ⟨hva, fun x hx => ?_, hwf⟩
        rw [hhead x hx]; exact hgap
      · simp [mem_cons, hmem]
    · simp only [if_neg hgap, List.nil_append] at hhead hmem ⊢
      refine ⟨hwf, by simpa using hhead, fun v => ?_⟩
      have h1 := above_of_no_gap (by simpa using hgap) v
      have h2 := aboveStart_mono hle v
      simp only [hmem, Seg.Mem, belowEnd_unionEnd, Option.mem_def, Option.some.injEq,
        exists_eq_left'] at *
      grind


theorem unionGo_spec (acc : Option (Seg V)) (l r : Range V) (hl : WF l) (hr : WF r)
    (hacc : ∀ a ∈ acc, validSegment a.1 a.2 = true ∧ StartLEHead a.1 l ∧ StartLEHead a.1 r) :
    WF (unionGo acc l r) ∧ (∀ a ∈ acc, ∀ x ∈ (unionGo acc l r).head?, x.1 = a.1) ∧
      ∀ v, Range.Mem v (unionGo acc l r) ↔
        (∃ a ∈ acc, Seg.Mem v a) ∨ Range.Mem v l ∨ Range.Mem v r := by
  fun_induction unionGo acc l r with
  | case1 acc l ls r rs hlt ih =>
    have hacc' : ∀ a ∈ acc, validSegment a.1 a.2 = true ∧ leftStartIsSmaller a.1 l.1 = true :=
      fun a ha => ⟨(hacc a ha).1, (startLEHead_cons _ _ _).1 (hacc a ha).2.1⟩
    obtain ⟨hv', hle'⟩ := unionAccum_inv acc l (wf_head_valid hl) hacc'
    have ih := ih (wf_tail hl) hr (by
      intro a ha; cases ha
      exact ⟨hv', startLEHead_trans hle' (startLEHead_tail hl),
        startLEHead_trans hle' ((startLEHead_cons _ _ _).2 hlt)⟩)
    have := union_step acc l (fun v => Range.Mem v ls ∨ Range.Mem v (r :: rs)) _ hacc'
      ⟨ih.1, ih.2.1 _ rfl, fun v => by simp [ih.2.2 v]⟩
    refine ⟨this.1, this.2.1, fun v => ?_⟩
    rw [this.2.2 v, mem_cons v l ls, or_assoc]
  | case2 acc l ls r rs hlt ih =>
    have hlt' := lss_total (by simpa using hlt)
    have hacc' : ∀ a ∈ acc, validSegment a.1 a.2 = true ∧ leftStartIsSmaller a.1 r.1 = true :=
      fun a ha => ⟨(hacc a ha).1, (startLEHead_cons _ _ _).1 (hacc a ha).2.2⟩
    obtain ⟨hv', hle'⟩ := unionAccum_inv acc r (wf_head_valid hr) hacc'
    have ih := ih hl (wf_tail hr) (by
      intro a ha; cases ha
      exact ⟨hv', startLEHead_trans hle' ((startLEHead_cons _ _ _).2 hlt'),
        startLEHead_trans hle' (startLEHead_tail hr)⟩)
    have := union_step acc r (fun v => Range.Mem v (l :: ls) ∨ Range.Mem v rs) _ hacc'
      ⟨ih.1, ih.2.1 _ rfl, fun v => by simp [ih.2.2 v]⟩
    refine ⟨this.1, this.2.1, fun v => ?_⟩
    rw [this.2.2 v, mem_cons v r rs]; grind
  | case3 acc l ls ih =>
    have hacc' : ∀ a ∈ acc, validSegment a.1 a.2 = true ∧ leftStartIsSmaller a.1 l.1 = true :=
      fun a ha => ⟨(hacc a ha).1, (startLEHead_cons _ _ _).1 (hacc a ha).2.1⟩
    obtain ⟨hv', hle'⟩ := unionAccum_inv acc l (wf_head_valid hl) hacc'
    have ih := ih (wf_tail hl) hr (by
      intro a ha; cases ha
      exact ⟨hv', startLEHead_trans hle' (startLEHead_tail hl), startLEHead_nil _⟩)
    have := union_step acc l (fun v => Range.Mem v ls ∨ Range.Mem v []) _ hacc'
      ⟨ih.1, ih.2.1 _ rfl, fun v => by simp [ih.2.2 v]⟩
    refine ⟨this.1, this.2.1, fun v => ?_⟩
    rw [this.2.2 v, mem_cons v l ls, or_assoc]
  | case4 acc r rs ih =>
    have hacc' : ∀ a ∈ acc, validSegment a.1 a.2 = true ∧ leftStartIsSmaller a.1 r.1 = true :=
      fun a ha => ⟨(hacc a ha).1, (startLEHead_cons _ _ _).1 (hacc a ha).2.2⟩
    obtain ⟨hv', hle'⟩ := unionAccum_inv acc r (wf_head_valid hr) hacc'
    have ih := ih hl (wf_tail hr) (by
      intro a ha; cases ha
      exact ⟨hv', startLEHead_nil _, startLEHead_trans hle' (startLEHead_tail hr)⟩)
    have := union_step acc r (fun v => Range.Mem v [] ∨ Range.Mem v rs) _ hacc'
      ⟨ih.1, ih.2.1 _ rfl, fun v => by simp [ih.2.2 v]⟩
    refine ⟨this.1, this.2.1, fun v => ?_⟩
    rw [this.2.2 v, mem_cons v r rs]; grind
  | case5 a =>
    obtain ⟨a1, a2⟩ := a
    have := (hacc _ rfl).1
    simp [wf_cons, this, gapHead_nil, wf_nil, mem_cons, mem_nil]
  | case6 => simp [wf_nil, mem_nil]


/-! ## Target theorems -/

/-- `contains` (model of the binary search) is the semantic membership -/
theorem contains_iff_mem (r : Range V) (v : V) : contains r v = true ↔ Range.Mem v r :=
  contains_iff_mem' r v

/-- `WF` unfolded one step (convenient induction principle) -/
theorem wf_cons_iff (s e : Bound V) (t : Range V) :
    WF ((s, e) :: t) ↔
      validSegment s e = true ∧ (∀ x ∈ t.head?, endBeforeStartWithGap e x.1 = true) ∧ WF t :=
  wf_cons s e t

theorem wf_empty : WF (empty : Range V) := wf_nil
theorem wf_full : WF (full : Range V) := by simp [full, WF, checkInvariants, validSegment]
theorem wf_singleton (v : V) : WF (singleton v) := by
  simp [singleton, WF, checkInvariants, validSegment]
theorem wf_higherThan (v : V) : WF (higherThan v) := by
  simp [higherThan, WF, checkInvariants, validSegment]
theorem wf_strictlyHigherThan (v : V) : WF (strictlyHigherThan v) := by
  simp [strictlyHigherThan, WF, checkInvariants, validSegment]
theorem wf_lowerThan (v : V) : WF (lowerThan v) := by
  simp [lowerThan, WF, checkInvariants, validSegment]
theorem wf_strictlyLowerThan (v : V) : WF (strictlyLowerThan v) := by
  simp [strictlyLowerThan, WF, checkInvariants, validSegment]
theorem wf_between (v1 v2 : V) (h : v1 < v2) : WF (between v1 v2) := by
  simp [between, WF, checkInvariants, validSegment, h]

theorem contains_empty (v : V) : contains (empty : Range V) v = false := by
  simp [empty, contains]
theorem contains_full (v : V) : contains (full : Range V) v = true := by
  simp [contains_iff_mem, full, mem_cons, mem_nil, Seg.Mem, aboveStart, belowEnd]
theorem contains_singleton (v w : V) : contains (singleton v) w = true ↔ w = v := by
  simp only [contains_iff_mem, singleton, mem_cons, mem_nil, Seg.Mem, aboveStart, belowEnd, or_false]
  constructor
  · rintro ⟨h1, h2⟩; order
  · rintro rfl; exact ⟨le_refl _, le_refl _⟩
theorem contains_higherThan (v w : V) : contains (higherThan v) w = true ↔ v ≤ w := by
  simp [contains_iff_mem, higherThan, mem_cons, mem_nil, Seg.Mem, aboveStart, belowEnd]
theorem contains_strictlyHigherThan (v w : V) : contains (strictlyHigherThan v) w = true ↔ v < w := by
  simp [contains_iff_mem, strictlyHigherThan, mem_cons, mem_nil, Seg.Mem, aboveStart, belowEnd]
theorem contains_lowerThan (v w : V) : contains (lowerThan v) w = true ↔ w ≤ v := by
  simp [contains_iff_mem, lowerThan, mem_cons, mem_nil, Seg.Mem, aboveStart, belowEnd]
theorem contains_strictlyLowerThan (v w : V) : contains (strictlyLowerThan v) w = true ↔ w < v := by
  simp [contains_iff_mem, strictlyLowerThan, mem_cons, mem_nil, Seg.Mem, aboveStart, belowEnd]
theorem contains_between (v1 v2 w : V) : contains (between v1 v2) w = true ↔ v1 ≤ w ∧ w < v2 := by
  simp [contains_iff_mem, between, mem_cons, mem_nil, Seg.Mem, aboveStart, belowEnd]

/-- intersection is pointwise `and`, and canonical -/
theorem contains_intersection (a b : Range V) (ha : WF a) (hb : WF b) (v : V) :
    contains (intersection a b) v = (contains a v && contains b v) := by
  rw [Bool.eq_iff_iff, Bool.and_eq_true]
  simp only [contains_iff_mem]
  exact mem_intersection a b ha hb v
theorem wf_intersection (a b : Range V) (ha : WF a) (hb : WF b) : WF (intersection a b) :=
  wf_intersection' a b ha hb

/-- union is pointwise `or`, and canonical -/
theorem contains_union (a b : Range V) (ha : WF a) (hb : WF b) (v : V) :
    contains (union a b) v = (contains a v || contains b v) := by
  rw [Bool.eq_iff_iff, Bool.or_eq_true]
  simp only [contains_iff_mem, union]
  rw [(unionGo_spec none a b ha hb (by simp)).2.2 v]
  simp
theorem wf_union (a b : Range V) (ha : WF a) (hb : WF b) : WF (union a b) :=
  (unionGo_spec none a b ha hb (by simp)).1

/-- complement is pointwise `not`, and canonical -/
theorem contains_complement (a : Range V) (ha : WF a) (v : V) :
    contains (complement a) v = !contains a v := by
  rw [Bool.eq_iff_iff, Bool.not_eq_true', ← Bool.not_eq_true]
  simp only [contains_iff_mem]
  exact (complement_spec a ha).2 v
theorem wf_complement (a : Range V) (ha : WF a) : WF (complement a) :=
  (complement_spec a ha).1

end Pubgrub.Range

/-
Range queries agree with membership (property C15).

All target statements of `skeletons/RangeQuery.lean` are proved as given, except two that are false
as stated; for those a `_partial` version with a clearly named extra hypothesis is proved, together
with a machine-checked counterexample to the original statement:

* `simplify_length_le`  : false for an unsorted `vs` (`simplify_length_le_counterexample`);
  `simplify_length_le_partial` adds `WF r` and `vs.Pairwise (· ≤ ·)` (only the latter is used, see
  `simplify_length_le_of_sorted`).
* `fromRangeBounds_empty` : false for an empty version type (`fromRangeBounds_empty_counterexample`);
  `fromRangeBounds_empty_partial` adds `[Nonempty V]`.

`Sorted vs` is `List.Pairwise (· ≤ ·) vs` (ascending, repeats allowed).
-/
import PubgrubProofs.RangeQueryAux

namespace Pubgrub.Range
open Pubgrub Bound Query
variable {V : Type} [LinearOrder V]

/-- `contains_many` over a sorted sequence equals mapping `contains` -/
theorem containsMany_eq_map (r : Range V) (hr : WF r) (vs : List V)
    (hs : vs.Pairwise (· ≤ ·)) : containsMany r vs = vs.map (contains r) := by
  unfold containsMany
  exact map_eq_of_forall₂ (locations_spec0 r hr vs hs) fun _ _ h => loc_isSome h

/-- `simplify` agrees with the range on every listed version -/
theorem simplify_agrees (r : Range V) (hr : WF r) (vs : List V) (hs : vs.Pairwise (· ≤ ·))
    (v : V) (hv : v ∈ vs) : contains (simplify r vs) v = contains r v := by
  unfold simplify
  split
  · rfl
  · simp only
    split
    · rfl
    · rw [keepSegments_groupAdjacentLocations, Bool.eq_iff_iff, contains_iff, contains_iff]
      exact grpTop_agrees (forall₂_locS (locations_spec0 r hr vs hs)) hs v hv

/-- `simplify` never has more segments, for ascending versions -/
theorem simplify_length_le_of_sorted (r : Range V) (vs : List V) (hs : vs.Pairwise (· ≤ ·)) :
    (simplify r vs).length ≤ r.length := by
  unfold simplify
  split
  · exact Nat.le_refl _
  · simp only
    split
    · exact Nat.le_refl _
    · simpa [keepSegments] using groupAdjacentLocations_locations_length r 0 vs hs

/-- `simplify` never has more segments (the target `simplify_length_le` with the hypotheses
`WF r` and `vs` ascending added; the unconditional statement is false, see below) -/
theorem simplify_length_le_partial (r : Range V) (_hr : WF r) (vs : List V)
    (hs : vs.Pairwise (· ≤ ·)) : (simplify r vs).length ≤ r.length :=
  simplify_length_le_of_sorted r vs hs

/-- the unconditional `simplify_length_le` is false: `[3, 7]` simplified against the unsorted
`5, 1, 5, 1, 5` has three segments -/
theorem simplify_length_le_counterexample :
    ¬ ∀ (r : Range Nat) (vs : List Nat), (simplify r vs).length ≤ r.length := by
  intro h
  have := h [(incl 3, incl 7)] [5, 1, 5, 1, 5]
  simp [simplify, asSingleton, locations, withinBounds, groupAdjacentLocations, groupAdj,
    keepSegments] at this

/-- `simplify` returns the original when it is a singleton -/
theorem simplify_singleton (r : Range V) (vs : List V) (h : (asSingleton r).isSome = true) :
    simplify r vs = r := by
  simp [simplify, h]

/-- `simplify` returns the original when no listed version matches -/
theorem simplify_none_match (r : Range V) (hr : WF r) (vs : List V) (hs : vs.Pairwise (· ≤ ·))
    (h : ∀ v ∈ vs, contains r v = false) : simplify r vs = r := by
  have := groupAdjacentLocations_all_none _ (all_none_of_forall₂ (locations_spec0 r hr vs hs) h)
  simp [simplify, this]

/-- `simplify` returns a canonical range -/
theorem wf_simplify (r : Range V) (hr : WF r) (vs : List V) (hs : vs.Pairwise (· ≤ ·)) :
    WF (simplify r vs) := by
  unfold simplify
  split
  · exact hr
  · simp only
    split
    · exact hr
    · rw [keepSegments_groupAdjacentLocations]
      exact wf_grpTop (forall₂_locS (locations_spec0 r hr vs hs)) hs

set_option linter.unusedSectionVars false in
/-- `bounding_range` is `None` only for the empty range -/
theorem boundingRange_eq_none_iff (r : Range V) : boundingRange r = none ↔ r = [] := by
  cases r with
  | nil => simp [boundingRange]
  | cons a t =>
    obtain ⟨s, e⟩ := a
    rcases hl : ((s, e) :: t).getLast? with _ | ⟨s', e'⟩
    · simp at hl
    · simp [boundingRange, hl]

namespace Query

theorem belowEnd_of_gap {v : V} {e s' e' : Bound V} (hg : endBeforeStartWithGap e s' = true)
    (hv : validSegment s' e' = true) (hb : Bound.belowEnd v e) : Bound.belowEnd v e' := by
  cases e <;> cases s' <;> cases e' <;>
    simp_all [endBeforeStartWithGap, validSegment, Bound.belowEnd] <;> order

theorem wf_belowEnd_last {r : Range V} (hr : WF r) {sg l : Seg V} (hm : sg ∈ r)
    (hl : r.getLast? = some l) {v : V} (hv : Bound.belowEnd v sg.2) : Bound.belowEnd v l.2 := by
  induction r with
  | nil => simp at hm
  | cons hd t ih =>
    cases t with
    | nil =>
      simp only [List.getLast?_singleton, Option.some.injEq] at hl
      simp only [List.mem_singleton] at hm
      subst hl hm; exact hv
    | cons hd' t' =>
      rw [List.getLast?_cons_cons] at hl
      rcases List.mem_cons.1 hm with rfl | hm
      · have hlm := List.mem_of_getLast? hl
        exact belowEnd_of_gap (wf_gap_all hr l hlm) (wf_valid_all (wf_tail hr) l hlm) hv
      · exact ih (wf_tail hr) hm hl

end Query

/-- `bounding_range` covers every contained version -/
theorem boundingRange_covers (r : Range V) (hr : WF r) (s e : Bound V)
    (h : boundingRange r = some (s, e)) (v : V) (hv : contains r v = true) :
    Seg.Mem v (s, e) := by
  obtain ⟨sg, hsg, hm⟩ := (contains_iff r v).1 hv
  cases r with
  | nil => simp at hsg
  | cons a t =>
    obtain ⟨s0, e0⟩ := a
    rcases hl : ((s0, e0) :: t).getLast? with _ | ⟨s', e'⟩
    · simp at hl
    · simp only [boundingRange, hl, List.head?_cons, Option.some.injEq, Prod.mk.injEq] at h
      obtain ⟨rfl, rfl⟩ := h
      refine ⟨?_, wf_belowEnd_last hr hsg hl hm.2⟩
      rcases List.mem_cons.1 hsg with rfl | hsg
      · exact hm.1
      · exact wf_aboveStart_head hr hsg hm.1

/-- `as_singleton` is `Some(v)` exactly for the one-segment list `[v, v]` -/
theorem asSingleton_eq_some_iff (r : Range V) (v : V) :
    asSingleton r = some v ↔ r = singleton v := by
  constructor
  · intro h
    unfold asSingleton at h
    split at h
    · split at h
      · simp_all [singleton]
      · simp at h
    · simp at h
  · rintro rfl
    simp [asSingleton, singleton]

/-- `from_range_bounds` contains exactly the versions its std bounds contain -/
theorem contains_fromRangeBounds (s e : Bound V) (v : V) :
    contains (fromRangeBounds s e) v = true ↔ Seg.Mem v (s, e) := by
  unfold fromRangeBounds
  split
  · simp [contains_iff]
  · rename_i hval
    simp only [contains_iff, empty, List.not_mem_nil, false_and, exists_false, false_iff]
    exact fun hm => hval (valid_of_mem hm.1 hm.2)

/-- `from_range_bounds` is canonical -/
theorem wf_fromRangeBounds (s e : Bound V) : WF (fromRangeBounds s e) := by
  unfold fromRangeBounds
  split
  · rename_i hval
    simpa [WF, checkInvariants] using hval
  · exact wf_nil

/-- a valid segment of a non-empty dense order without end points has a point -/
theorem Query.exists_mem_of_valid [DenselyOrdered V] [NoMinOrder V] [NoMaxOrder V] [Nonempty V]
    (s e : Bound V) (h : validSegment s e = true) : ∃ v, Seg.Mem v (s, e) := by
  cases s with
  | incl a =>
    cases e with
    | incl b => exact ⟨a, le_refl a, by simpa [validSegment, Bound.belowEnd] using h⟩
    | excl b => exact ⟨a, le_refl a, by simpa [validSegment, Bound.belowEnd] using h⟩
    | unb => exact ⟨a, le_refl a, trivial⟩
  | excl a =>
    cases e with
    | incl b => exact ⟨b, by simpa [validSegment, Bound.aboveStart] using h, le_refl b⟩
    | excl b =>
      obtain ⟨c, hac, hcb⟩ := exists_between (show a < b by simpa [validSegment] using h)
      exact ⟨c, hac, hcb⟩
    | unb => obtain ⟨c, hc⟩ := exists_gt a; exact ⟨c, hc, trivial⟩
  | unb =>
    cases e with
    | incl b => exact ⟨b, trivial, le_refl b⟩
    | excl b => obtain ⟨c, hc⟩ := exists_lt b; exact ⟨c, trivial, hc⟩
    | unb => exact ‹Nonempty V›.elim fun c => ⟨c, trivial, trivial⟩

/-- `from_range_bounds` yields the empty range for an interval without points (the target
`fromRangeBounds_empty` with `[Nonempty V]` added; without it the statement is false, see below) -/
theorem fromRangeBounds_empty_partial [DenselyOrdered V] [NoMinOrder V] [NoMaxOrder V]
    [Nonempty V] (s e : Bound V) (h : ∀ v, ¬ Seg.Mem v (s, e)) : fromRangeBounds s e = empty := by
  unfold fromRangeBounds
  split
  · rename_i hval
    obtain ⟨v, hv⟩ := exists_mem_of_valid s e hval
    exact absurd hv (h v)
  · rfl

/-- `fromRangeBounds_empty` as given is false when the version type is empty: `(unb, unb)` then has
no point, but `from_range_bounds` still returns the one-segment range `full` -/
theorem fromRangeBounds_empty_counterexample :
    ∃ (_ : DenselyOrdered Empty) (_ : NoMinOrder Empty) (_ : NoMaxOrder Empty) (s e : Bound Empty),
      (∀ v, ¬ Seg.Mem v (s, e)) ∧ fromRangeBounds s e ≠ empty :=
  ⟨⟨fun a => a.elim⟩, ⟨fun a => a.elim⟩, ⟨fun a => a.elim⟩, unb, unb, fun v => v.elim,
    by simp [fromRangeBounds, validSegment, empty]⟩

end Pubgrub.Range

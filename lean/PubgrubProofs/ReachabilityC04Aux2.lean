/-
Helpers for `ReachabilityC04.lean`, part 2: the chain invariant holds in every reachable state.
-/
import PubgrubProofs.ReachabilityC04Aux1

set_option linter.unusedSectionVars false
set_option linter.unusedVariables false

namespace Pubgrub
open VersionSet

variable {P S V M Pr E : Type} [DecidableEq P] [VersionSet S V] [DecidableEq S] [DecidableEq V]
  [LE Pr] [DecidableLE Pr] [LawfulVersionSet S V]

theorem ddchain_step (s : SolverState P S V M Pr) (req : Request P S V M Pr E) (a : Answer P S V M Pr E)
    (h' : RInv' (s, req)) (h : s.st.DDChainInv) : (Solver.step s a).1.st.DDChainInv := by
  unfold Solver.step
  split
  · exact h
  · exact h
  · -- cancel, ok
    split
    · exact h
    · rename_i st terminal hu
      have h1 := State.unitPropagation_ddchain hu h
      split
      · exact h1
      · exact h1
    · rename_i st hu
      have h1 := State.unitPropagation_ddchain hu h
      split
      · exact h1
      · exact h1
      · exact h1
  · -- prioritizing
    simp only
    split
    · exact h
    · exact h
  · -- picking
    rename_i acc o hph
    simp only
    split
    · split
      · exact h
      · split
        · exact h
        · exact h
    · rename_i p
      split
      · exact h
      · split
        · exact h
        · split
          · exact h
          · exact h
  · exact h
  · -- choosing, none
    split
    · exact h
    · split
      · exact h
      · rename_i st hadd
        exact State.addIncompatibility_ddchain hadd h
  · -- choosing, some v
    rename_i p t v hph
    obtain ⟨hp, _⟩ := h'.live (by simp only; rw [hph]; intro e; cases e)
    obtain ⟨_, _, hfl⟩ := h'.choosing p t hph
    split
    · exact h
    · simp only
      split
      · exact h
      · split
        · exact h
        · rename_i ps hps
          exact PartialSolution.addDecision_ddchain hp.wf.wf h hfl.2.2 hps
  · exact h
  · -- fetching, unavailable
    split
    · exact h
    · rename_i st hadd
      exact State.addIncompatibility_ddchain hadd h
  · -- fetching, available
    rename_i p v deps hph
    obtain ⟨hp, _⟩ := h'.live (by simp only; rw [hph]; intro e; cases e)
    obtain ⟨_, hfl, _⟩ := h'.fetching p v hph
    split
    · exact h
    · rename_i st start stop hadd
      have h1 := State.addIncompatibilityFromDependencies_ddchain hadd h
      obtain ⟨hp1, eps⟩ := State.addIncompatibilityFromDependencies_pinv hadd hp
      simp only
      split
      · exact h1
      · rename_i ps hps
        have hpos : ∃ pa s, st.ps.getPA p = some pa ∧ pa.inter = .derivations (.pos s) := by
          rw [eps]; exact hfl.2.2
        unfold PartialSolution.addVersion at hps
        split at hps
        · exact PartialSolution.addDecision_ddchain hp1.wf.wf h1 hpos hps
        · simp only at hps
          split at hps
          · exact PartialSolution.addDecision_ddchain hp1.wf.wf h1 hpos hps
          · injection hps with hps; subst hps
            exact h1
  · exact h

/-- the chain invariant holds in every reachable state -/
theorem reachable_ddchain (W : World P S V M) (hW : W.SetsValid) (debug : Bool) (fuel : Nat)
    (root : P) (rv : V) (x : SolverState P S V M Pr × Request P S V M Pr E)
    (h : Reachable W debug fuel root rv x) : x.1.st.DDChainInv := by
  induction h with
  | start =>
    intro kv hkv
    simp [Solver.start, State.init, PartialSolution.empty] at hkv
  | step hreach ha ih =>
    exact ddchain_step _ _ _ (reachable_rinv' W hW debug fuel root rv _ hreach) ih

theorem c04_reachable_of_wb (W : World P S V M) (debug : Bool) (fuel : Nat)
    (root : P) (rv : V) (x : SolverState P S V M Pr × Request P S V M Pr E)
    (h : ReachableWB W debug fuel root rv x) : Reachable W debug fuel root rv x := by
  induction h with
  | start => exact .start
  | step _ ha _ ih => exact .step ih ha

end Pubgrub

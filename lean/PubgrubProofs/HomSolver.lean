/-
TARGET FILE: PubgrubProofs/HomSolver.lean
The solver commutes with injective version-set homomorphisms (definitions: PubgrubProofs/HomDefs.lean —
do not change them; if a definition is wrong or insufficient, report exactly what and fix a private copy
named HomDefs2.lean, keeping the names).
Every function of the model (PubgrubModel/Term.lean, SmallMap.lean, Incompat.lean, PartialSolution.lean,
Tree.lean, Core.lean, Solver.lean) that touches a version set does so through the nine methods of the
class `VersionSet` and through `DecidableEq S` / `DecidableEq V` tests; so for each such function `g`
prove the commutation lemma  `g (map args) = map (g args)`  (for functions into `R := Except Fault`,
`Option`, `Bool`, `Nat`, lists of ids: the obvious mapped form).  Work bottom-up in the import order of
the model; put the lemmas for each model file into its own PubgrubProofs/HomSolverAux<k>.lean.
Hints: state lemmas with `@[simp]`; `Term.mapH`-injectivity gives `decide (t = t') = decide (mapH t = mapH t')`;
for `DecidableEq` instance mismatches use `Subsingleton.elim` / `congr`; fuelled recursions by induction
on the fuel; `SmallMap` operations are list functions on keys `P` (unchanged) — prove generic
"map values" lemmas once (`SmallMap.get (l.map (fun kv => (kv.1, g kv.2))) k = (SmallMap.get l k).map g`, …).
Replace every `sorry`; keep the target statements.
-/
import PubgrubProofs.HomSolverAux5

set_option linter.unusedSectionVars false

namespace Pubgrub
open VersionSet

variable {P S V S' V' M Pr E : Type} [DecidableEq P] [VersionSet S V] [VersionSet S' V']
  [DecidableEq S] [DecidableEq V] [DecidableEq S'] [DecidableEq V'] [LE Pr] [DecidableLE Pr]

theorem start_mapH (h : VSetHom S V S' V') (debug : Bool) (fuel : Nat) (root : P) (rv : V) :
    Solver.start (M := M) (Pr := Pr) (E := E) debug fuel root (h.ι rv) =
      (SolverState.mapH h (Solver.start (S := S) (M := M) (Pr := Pr) (E := E) debug fuel root rv).1,
       Request.mapH h (Solver.start (S := S) (M := M) (Pr := Pr) (E := E) debug fuel root rv).2) := by
  simp [Solver.start, SolverState.mapH, Phase.mapH, Request.mapH]

theorem step_mapH (h : VSetHom S V S' V') (s : SolverState P S V M Pr) (a : Answer P S V M Pr E) :
    Solver.step (SolverState.mapH h s) (Answer.mapH h a) =
      (SolverState.mapH h (Solver.step s a).1, Request.mapH h (Solver.step s a).2) := by
  exact step_mapH_aux h s a

theorem after_mapH (h : VSetHom S V S' V') (x : SolverState P S V M Pr × Request P S V M Pr E)
    (as : List (Answer P S V M Pr E)) :
    Solver.after (SolverState.mapH h x.1, Request.mapH h x.2) (as.map (Answer.mapH h)) =
      (SolverState.mapH h (Solver.after x as).1, Request.mapH h (Solver.after x as).2) := by
  induction as generalizing x with
  | nil => rfl
  | cons a as ih =>
    obtain ⟨s, r⟩ := x
    simp only [List.map_cons, Solver.after, step_mapH]
    exact ih (Solver.step s a)

theorem trace_mapH (h : VSetHom S V S' V') (debug : Bool) (fuel : Nat) (root : P) (rv : V)
    (as : List (Answer P S V M Pr E)) :
    Solver.trace debug fuel root (h.ι rv) (as.map (Answer.mapH h)) =
      (Solver.trace debug fuel root rv as).map (Request.mapH h) := by
  have hrun : ∀ (x : SolverState P S V M Pr × Request P S V M Pr E) (as : List (Answer P S V M Pr E)),
      Solver.runFrom (SolverState.mapH h x.1, Request.mapH h x.2) (as.map (Answer.mapH h)) =
        (Solver.runFrom x as).map (Request.mapH h) := by
    intro x as
    induction as generalizing x with
    | nil => rfl
    | cons a as ih =>
      obtain ⟨s, r⟩ := x
      simp only [List.map_cons, Solver.runFrom, step_mapH]
      rw [ih (Solver.step s a)]
  simp only [Solver.trace, List.map_cons, start_mapH, hrun]

theorem isFinal_mapH (h : VSetHom S V S' V') (r : Request P S V M Pr E) :
    (Request.mapH h r).isFinal = r.isFinal := by
  cases r <;> rfl

/-- consistency with the registry is preserved (`back` is a partial inverse of `ι`) -/
theorem answerOK_mapH (h : VSetHom S V S' V') (back : V' → Option V)
    (hback : ∀ v, back (h.ι v) = some v) (W : World P S V M)
    (r : Request P S V M Pr E) (a : Answer P S V M Pr E) (hok : AnswerOK W r a) :
    AnswerOK (World.mapH h back W) (Request.mapH h r) (Answer.mapH h a) := by
  cases r <;> cases a <;> try trivial
  · rename_i p s v
    cases v with
    | none =>
      intro v' hv'
      simp only [World.mapH, List.mem_map] at hv'
      obtain ⟨v, hv, rfl⟩ := hv'
      rw [h.map_contains]
      exact hok v hv
    | some v =>
      simp only [Request.mapH, Answer.mapH, Option.map_some, AnswerOK, World.mapH, List.mem_map]
      exact ⟨v, hok, rfl⟩
  · rename_i p v m
    simp only [AnswerOK] at hok
    simp only [Request.mapH, Answer.mapH, AnswerOK, World.mapH, hback, hok, DepsAnswer.mapH]
  · rename_i p v ds
    simp only [AnswerOK] at hok
    simp only [Request.mapH, Answer.mapH, AnswerOK, World.mapH, hback, hok, DepsAnswer.mapH]

theorem answerWellBehaved_mapH (h : VSetHom S V S' V')
    (r : Request P S V M Pr E) (a : Answer P S V M Pr E) (hwb : AnswerWellBehaved r a) :
    AnswerWellBehaved (Request.mapH h r) (Answer.mapH h a) := by
  cases a with
  | error e => cases r <;> exact hwb.elim
  | version v =>
    cases v with
    | none => cases r <;> trivial
    | some v =>
      cases r <;> try trivial
      simp only [Request.mapH, Answer.mapH, Option.map_some, AnswerWellBehaved, h.map_contains]
      exact hwb
  | ok => cases r <;> trivial
  | priority pr => cases r <;> trivial
  | picked p => cases r <;> trivial
  | unavailable m => cases r <;> trivial
  | available ds => cases r <;> trivial

theorem reachable_mapH (h : VSetHom S V S' V') (back : V' → Option V)
    (hback : ∀ v, back (h.ι v) = some v) (W : World P S V M) (debug : Bool) (fuel : Nat) (root : P)
    (rv : V) (x : SolverState P S V M Pr × Request P S V M Pr E)
    (hx : Reachable W debug fuel root rv x) :
    Reachable (World.mapH h back W) debug fuel root (h.ι rv)
      (SolverState.mapH h x.1, Request.mapH h x.2) := by
  induction hx with
  | start =>
    have := start_mapH (M := M) (Pr := Pr) (E := E) (P := P) h debug fuel root rv
    simp only [← this]
    exact Reachable.start
  | step hr hok ih =>
    rename_i s req a
    have := step_mapH (E := E) h s a
    simp only [← this]
    exact Reachable.step ih (answerOK_mapH h back hback W req a hok)

theorem reachableWB_mapH (h : VSetHom S V S' V') (back : V' → Option V)
    (hback : ∀ v, back (h.ι v) = some v) (W : World P S V M) (debug : Bool) (fuel : Nat) (root : P)
    (rv : V) (x : SolverState P S V M Pr × Request P S V M Pr E)
    (hx : ReachableWB W debug fuel root rv x) :
    ReachableWB (World.mapH h back W) debug fuel root (h.ι rv)
      (SolverState.mapH h x.1, Request.mapH h x.2) := by
  induction hx with
  | start =>
    have := start_mapH (M := M) (Pr := Pr) (E := E) (P := P) h debug fuel root rv
    simp only [← this]
    exact ReachableWB.start
  | step hr hok hwb ih =>
    rename_i s req a
    have := step_mapH (E := E) h s a
    simp only [← this]
    exact ReachableWB.step ih (answerOK_mapH h back hback W req a hok) (answerWellBehaved_mapH h req a hwb)

end Pubgrub

/-
TARGET FILE: PubgrubProofs/Termination.lean
Property C05, termination clause: for a well-behaved provider over a finite registry `resolve` returns
after a bounded number of provider calls (and the model's internal loops need only bounded fuel).
Definitions: PubgrubProofs/TermDefs.lean (`GeneratedSet`, `FiniteWorld`, `WellBehavedRun`).
Helpers: PubgrubProofs/TerminationAux1 … TerminationAux13, following the plan of the skeleton:
* Aux1–3: the measure `rank` (a base-`(B+1)` numeral of the sizes of the terms restricted to each decision
  level) and R1–R3 (derivation, decision, backtrack + derivation decrease it);
* Aux4–5: the invariants G1/G2 (`KInv`) and `AccInv` (an accumulated term is the previous term intersected
  with the negation of the cause's term);
* Aux6–9: F1 (conflict resolution moves the satisfier strictly earlier: at most `nextGlobalIndex + 1`
  iterations), Aux8: the fuel-free functions never return `outOfFuel`;
* Aux10–12: F2 (the potential `2·rank + |buffer|` of the propagation loop) and the trigger left by the
  non-deciding paths of a cycle;
* Aux13: the run-level invariant with the budget of remaining provider calls (P1, P2).
Bounds proved: `N = (2·|pkgs| + 12)·(B+1)^D + |pkgs| + 6`, `fuel0 = 3·(B+1)^D + 3`, where
`B = Σ_p (|tests p| + 2) + 1` and `D = |pkgs| + 2` (`pkgs` with multiplicity).
-/
import PubgrubProofs.TermDefs
import PubgrubProofs.NoPanic
import PubgrubProofs.CanonInstances
import PubgrubProofs.TerminationAux13

set_option linter.unusedSectionVars false
set_option linter.unusedVariables false

namespace Pubgrub
open VersionSet

variable {P S V M Pr E : Type} [DecidableEq P] [VersionSet S V] [DecidableEq S] [DecidableEq V]
  [LE Pr] [DecidableLE Pr] [LawfulVersionSet S V] [CanonicalEmpty S V]

/-! ### runs -/

/-- the answers given while the run has not returned are consistent with the world and well-behaved -/
def GoodRunFrom (W : World P S V M) (x : SolverState P S V M Pr × Request P S V M Pr E)
    (as : List (Answer P S V M Pr E)) : Prop :=
  ∀ (k : Nat) (a : Answer P S V M Pr E), as[k]? = some a →
    (Solver.after x (as.take k)).2.isFinal = false →
      AnswerOK W (Solver.after x (as.take k)).2 a ∧ AnswerWellBehaved (Solver.after x (as.take k)).2 a

theorem goodRunFrom_of_wellBehavedRun {W : World P S V M} {debug : Bool} {fuel : Nat} {root : P} {rv : V}
    {as : List (Answer P S V M Pr E)} (h : WellBehavedRun W debug fuel root rv as) :
    GoodRunFrom W (Solver.start debug fuel root rv) as := by
  intro k a hk hfin
  obtain ⟨r, hr, hok⟩ := h k a hk
  rw [Solver.trace_eq, Solver.traceFrom_getElem?_eq_some] at hr
  obtain ⟨_, hr⟩ := hr
  subst hr
  exact hok hfin

theorem GoodRunFrom.head {W : World P S V M} {x : SolverState P S V M Pr × Request P S V M Pr E}
    {a : Answer P S V M Pr E} {as : List (Answer P S V M Pr E)} (h : GoodRunFrom W x (a :: as))
    (hfin : x.2.isFinal = false) : AnswerOK W x.2 a ∧ AnswerWellBehaved x.2 a := by
  have := h 0 a rfl
  simp only [List.take_zero, Solver.after_nil] at this
  exact this hfin

theorem GoodRunFrom.tail {W : World P S V M} {x : SolverState P S V M Pr × Request P S V M Pr E}
    {a : Answer P S V M Pr E} {as : List (Answer P S V M Pr E)} (h : GoodRunFrom W x (a :: as)) :
    GoodRunFrom W (Solver.step x.1 a) as := by
  intro k b hk hfin
  have := h (k + 1) b (by simpa using hk)
  simp only [List.take_succ_cons, Solver.after_cons] at this
  exact this hfin

/-- once `resolve` has returned, every further answer is refused with a protocol error -/
theorem done_after_cons (x : SolverState P S V M Pr × Request P S V M Pr E) (hx : x.1.phase = .finished)
    (a : Answer P S V M Pr E) (as : List (Answer P S V M Pr E)) :
    ∃ m, (Solver.after x (a :: as)).2 = .protocolError m := by
  induction as generalizing x a with
  | nil =>
    rw [Solver.after_cons, Solver.after_nil, Solver.step_finished x.1 a hx]
    exact ⟨_, rfl⟩
  | cons b bs ih =>
    rw [Solver.after_cons]
    have : (Solver.step x.1 a).1.phase = .finished := by
      rw [Solver.step_finished x.1 a hx]; exact hx
    exact ih _ this b

section
variable {W : World P S V M} {root : P} {rv : V} (fw : FiniteWorld W root rv)

theorem rinvM_start (debug : Bool) (fuel : Nat) (hf : 3 * Cmax fw + 3 ≤ fuel) :
    RInvM fw (Solver.start (Pr := Pr) (E := E) (M := M) debug fuel root rv)
      (Kc2 fw * Cmax fw + fw.pkgs.length + 6) := by
  have hrb := rank_bound fw (PartialSolution.empty : PartialSolution P S V Pr)
  refine ⟨fun _ => ⟨⟨?_, ?_⟩, ?_, ?_⟩, ?_, hf, ?_, ?_⟩
  · intro kv hkv; simp [Solver.start, State.init, PartialSolution.empty] at hkv
  · intro inc hinc
    simp only [Solver.start, State.init, List.mem_singleton] at hinc
    subst hinc
    exact oki_notRoot fw
  · intro p pa hm; simp [Solver.start, State.init, PartialSolution.empty] at hm
  · show (PartialSolution.empty : PartialSolution P S V Pr).nextGlobalIndex +
      rank fw (PartialSolution.empty : PartialSolution P S V Pr) ≤ Cmax fw
    unfold Cmax
    simp only [PartialSolution.empty]
    simp only [PartialSolution.empty] at hrb
    omega
  · intro p v h; simp [Solver.start] at h
  · intro h; simp [Solver.start] at h
  · simp only [Budget, Solver.start]
    right
    have : Kc2 fw * rank fw (State.init (M := M) debug root rv : State P S V M Pr).ps ≤ Kc2 fw * Cmax fw := by
      apply kc2_mono
      have := rank_bound fw (State.init (M := M) debug root rv : State P S V M Pr).ps
      unfold Cmax; omega
    omega

/-- P2: a run that starts with a budget of `n` answers has returned after `n` good answers, and never
by running out of fuel -/
theorem run_rinvM (hW : W.SetsValid) (debug : Bool) (fuel : Nat) :
    ∀ (as : List (Answer P S V M Pr E)) (x : SolverState P S V M Pr × Request P S V M Pr E) (n : Nat),
    Reachable W debug fuel root rv x → RInvM fw x n → GoodRunFrom W x as →
    (Solver.after x as).2 ≠ .fault .outOfFuel ∧ (n ≤ as.length → (Solver.after x as).2.isFinal = true) := by
  intro as
  induction as with
  | nil =>
    intro x n hreach h _
    rw [Solver.after_nil]
    refine ⟨h.nofuel, ?_⟩
    intro hn
    have hn0 : n = 0 := by simpa using hn
    subst hn0
    have hco := reachable_coherent W debug fuel root rv x hreach
    have hb := h.budget
    unfold Budget at hb
    unfold Solver.Coherent at hco
    split at hb
    · rename_i hph; rw [hph] at hco; exact hco
    · rcases hb with ⟨_, hb⟩ | hb <;> omega
    all_goals omega
  | cons a as ih =>
    intro x n hreach h hgood
    obtain ⟨s, req⟩ := x
    cases hfin : req.isFinal with
    | true =>
      have hco := reachable_coherent W debug fuel root rv _ hreach
      have hph : s.phase = .finished := Solver.coherent_final hco hfin
      obtain ⟨m, hm⟩ := done_after_cons (s, req) hph a as
      rw [hm]
      exact ⟨(by intro e; cases e), fun _ => rfl⟩
    | false =>
      obtain ⟨hok, _⟩ := hgood.head hfin
      have hreach' : Reachable W debug fuel root rv (Solver.step s a) := Reachable.step hreach hok
      rw [Solver.after_cons]
      cases n with
      | zero =>
        -- no budget left: the state is final already
        exfalso
        have hco := reachable_coherent W debug fuel root rv _ hreach
        have hb := h.budget
        unfold Budget at hb
        unfold Solver.Coherent at hco
        simp only at hb hco
        split at hb
        · rename_i hph; rw [hph] at hco; simp only at hco; rw [hco] at hfin; cases hfin
        · rcases hb with ⟨_, hb⟩ | hb <;> omega
        all_goals omega
      | succ m =>
        have hstep := rinvM_step fw CanonicalEmpty.canonEmpty hW s req a m
          (reachable_rinv W hW debug fuel root rv _ hreach)
          (reachable_rinv' W hW debug fuel root rv _ hreach)
          (reachable_rinvT W hW debug fuel root rv _ hreach)
          (reachable_rinvN W hW debug fuel root rv _ hreach) h hok
        obtain ⟨h1, h2⟩ := ih (Solver.step s a) m hreach' hstep hgood.tail
        refine ⟨h1, ?_⟩
        intro hn
        apply h2
        simp only [List.length_cons] at hn
        omega

end

/-- a good run ends in a state reachable by a well-behaved provider, or was continued after `resolve`
had returned -/
theorem run_reachableWB (W : World P S V M) (debug : Bool) (fuel : Nat) (root : P) (rv : V) :
    ∀ (as : List (Answer P S V M Pr E)) (x : SolverState P S V M Pr × Request P S V M Pr E),
    ReachableWB W debug fuel root rv x → GoodRunFrom W x as →
    ReachableWB W debug fuel root rv (Solver.after x as) ∨ ∃ m, (Solver.after x as).2 = .protocolError m := by
  intro as
  induction as with
  | nil => intro x hx _; rw [Solver.after_nil]; exact Or.inl hx
  | cons a as ih =>
    intro x hx hgood
    obtain ⟨s, req⟩ := x
    cases hfin : req.isFinal with
    | true =>
      have hco := reachable_coherent W debug fuel root rv _ (c04_reachable_of_wb W debug fuel root rv _ hx)
      exact Or.inr (done_after_cons (s, req) (Solver.coherent_final hco hfin) a as)
    | false =>
      obtain ⟨hok, hwb⟩ := hgood.head hfin
      rw [Solver.after_cons]
      exact ih _ (ReachableWB.step hx hok hwb) hgood.tail

/-- C05 (termination): there are bounds `N` (provider calls) and `fuel0` (internal loop iterations) such
that every well-behaved run of at least `N` answers with fuel at least `fuel0` has returned, and not by
running out of fuel -/
theorem resolve_terminates (W : World P S V M) (hW : W.SetsValid) (root : P) (rv : V)
    (fw : FiniteWorld W root rv) (debug : Bool) :
    ∃ N fuel0 : Nat, ∀ fuel, fuel0 ≤ fuel → ∀ as : List (Answer P S V M Pr E), N ≤ as.length →
      WellBehavedRun W debug fuel root rv as →
      (Solver.after (Solver.start debug fuel root rv) as).2.isFinal = true ∧
      (Solver.after (Solver.start debug fuel root rv) as).2 ≠ .fault .outOfFuel := by
  refine ⟨Kc2 fw * Cmax fw + fw.pkgs.length + 6, 3 * Cmax fw + 3, ?_⟩
  intro fuel hfuel as hlen hrun
  obtain ⟨h1, h2⟩ := run_rinvM fw hW debug fuel as _ _ Reachable.start (rinvM_start fw debug fuel hfuel)
    (goodRunFrom_of_wellBehavedRun hrun)
  exact ⟨h2 hlen, h1⟩

/-- with the outcome theorem of NoPanic: a long enough well-behaved run has returned `Ok` or
`NoSolution` (or the model's `protocolError` for an ill-typed answer, which a Rust provider cannot
give) -/
theorem resolve_total (W : World P S V M) (hW : W.SetsValid) (root : P) (rv : V)
    (fw : FiniteWorld W root rv) (debug : Bool) :
    ∃ N fuel0 : Nat, ∀ fuel, fuel0 ≤ fuel → ∀ as : List (Answer P S V M Pr E), N ≤ as.length →
      WellBehavedRun W debug fuel root rv as →
      (∃ sel, (Solver.after (Solver.start debug fuel root rv) as).2 = .solution sel) ∨
      (∃ t, (Solver.after (Solver.start debug fuel root rv) as).2 = .noSolution t) ∨
      (∃ m, (Solver.after (Solver.start debug fuel root rv) as).2 = .protocolError m) := by
  obtain ⟨N, fuel0, h⟩ := resolve_terminates (Pr := Pr) (E := E) W hW root rv fw debug
  refine ⟨N, fuel0, ?_⟩
  intro fuel hfuel as hlen hrun
  obtain ⟨hfin, hnf⟩ := h fuel hfuel as hlen hrun
  rcases run_reachableWB W debug fuel root rv as _ ReachableWB.start (goodRunFrom_of_wellBehavedRun hrun) with
    hr | hm
  · generalize hx : Solver.after (Solver.start debug fuel root rv) as = x at hr hfin hnf
    obtain ⟨s, req⟩ := x
    rcases wellBehaved_outcomes W hW debug fuel root rv s req hr hfin with h1 | h1 | h1 | h1
    · exact Or.inl h1
    · exact Or.inr (Or.inl h1)
    · exact absurd h1 hnf
    · exact Or.inr (Or.inr h1)
  · exact Or.inr (Or.inr hm)

/-! ### non-vacuity: the bit set over `Fin n`

All versions are test versions, so every world over the bit set with a finite, dependency-closed
package list is a `FiniteWorld`. -/

namespace BitSet
attribute [local instance] instVersionSetBitSetFin lawful

/-- every world over the bit set with a finite package list closed under dependencies is finite -/
def finiteWorld {P M : Type} [DecidableEq P] {n : Nat} (W : World P (BitSet n) (Fin n) M) (root : P)
    (rv : Fin n) (pkgs : List P) (hroot : root ∈ pkgs)
    (hdeps : ∀ p v ds, v ∈ W.versions p → W.deps p v = .available ds → ∀ d ∈ ds, d.1 ∈ pkgs) :
    FiniteWorld W root rv where
  pkgs := pkgs
  root_mem := hroot
  deps_mem := hdeps
  tests := fun _ => List.finRange n
  separated := fun _ _ _ _ _ h v => h v (List.mem_finRange v)

/-- a concrete registry: two packages, versions `0 … 2`; version `v` of package `0` depends on package
`1` in the versions `≠ v`, package `1` has no dependencies -/
def exampleWorld : World (Fin 2) (BitSet 3) (Fin 3) Unit where
  versions := fun _ => [0, 1, 2]
  deps := fun p v =>
    if p = 0 then .available [((1 : Fin 2), BitSet.complement (BitSet.singleton v.val))] else .available []

theorem exampleWorld_setsValid : exampleWorld.SetsValid := by
  intro p v ds hd d hdm
  unfold exampleWorld at hd
  simp only at hd
  split at hd
  · injection hd with hd; subst hd
    rw [List.mem_singleton] at hdm; subst hdm
    exact valid_complement _ (valid_singleton _)
  · injection hd with hd; subst hd; cases hdm

def exampleFiniteWorld : FiniteWorld exampleWorld (0 : Fin 2) (0 : Fin 3) :=
  finiteWorld exampleWorld 0 0 [0, 1] (by simp) (by
    intro p v ds _ _ d _
    have : ∀ q : Fin 2, q ∈ ([0, 1] : List (Fin 2)) := by decide
    exact this _)

/-- `resolve_terminates` applied to the concrete registry -/
theorem example_terminates (debug : Bool) :
    ∃ N fuel0 : Nat, ∀ fuel, fuel0 ≤ fuel → ∀ as : List (Answer (Fin 2) (BitSet 3) (Fin 3) Unit Nat Unit),
      N ≤ as.length → WellBehavedRun exampleWorld debug fuel (0 : Fin 2) (0 : Fin 3) as →
      (Solver.after (Solver.start debug fuel (0 : Fin 2) (0 : Fin 3)) as).2.isFinal = true ∧
      (Solver.after (Solver.start debug fuel (0 : Fin 2) (0 : Fin 3)) as).2 ≠ .fault .outOfFuel :=
  haveI := BitSet.canonicalEmpty 3
  resolve_terminates exampleWorld exampleWorld_setsValid 0 0 exampleFiniteWorld debug

end BitSet

end Pubgrub

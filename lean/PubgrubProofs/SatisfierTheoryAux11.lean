/-
Helpers for `SatisfierTheory.lean`, part 11: `Solver.step` preserves the run-level invariant.
-/
import PubgrubProofs.SatisfierTheoryAux10

set_option linter.unusedSectionVars false
set_option linter.unusedVariables false

namespace Pubgrub
open VersionSet

variable {P S V M Pr E : Type} [DecidableEq P] [VersionSet S V] [DecidableEq S] [DecidableEq V]
  [LE Pr] [DecidableLE Pr] [LawfulVersionSet S V]

theorem rinvT_live (root : P) (rv : V) (s : SolverState P S V M Pr) (r : Request P S V M Pr E)
    (h : TInv root rv s.st) (h1 : ∀ sel, r ≠ .solution sel) (h2 : ∀ f, r ≠ .fault f) :
    RInvT root rv (s, r) :=
  ⟨fun _ => h, fun sel h => absurd h (h1 sel), fun site h => absurd h (h2 _)⟩

/-- the decision for the package in flight -/
theorem tinv_decided (W : World P S V M) (root : P) (rv : V) {st0 st : State P S V M Pr} {p : P} {v : V}
    {t : Term S} {ps : PartialSolution P S V Pr} {debug : Bool}
    (hs0 : SInv W root rv st0) (hp0 : PInv st0) (ht0 : TInv root rv st0)
    (eps : st.ps = st0.ps)
    (est : ∀ (i : Nat) (inc : Incompat P S V M), st0.store[i]? = some inc → st.store[i]? = some inc)
    (hp : PInv st) (hfl : st.ps.InFlightOK p)
    (hterm : st.ps.termIntersectionForPackage p = some t) (hcont : t.contains v = true)
    (hps : st.ps.addDecision debug p v = .ok ps) : TInv root rv { st with ps := ps } := by
  obtain ⟨h1, _, _⟩ := decided_ok hp hfl hterm hcont hps
  obtain ⟨_, _, pa, set, hpa, hinter⟩ := hfl
  have ht : t = .pos set := by
    simp only [PartialSolution.termIntersectionForPackage, hpa, Option.map_some, hinter, AssignInter.term] at hterm
    injection hterm with hterm; exact hterm.symm
  subst ht
  rw [eps] at hps hpa
  exact tinv_decision W root rv hs0 hp0 ht0 hps h1.wf.wf hpa hinter hcont rfl est

theorem rinvT_step (W : World P S V M) (hW : W.SetsValid) (root : P) (rv : V)
    (s : SolverState P S V M Pr) (req : Request P S V M Pr E) (a : Answer P S V M Pr E)
    (h0 : RInv W root rv (s, req)) (h1 : RInv' (s, req)) (h : RInvT root rv (s, req))
    (ha : AnswerOK W req a) : RInvT root rv (Solver.step s a) := by
  have hs : SInv W root rv s.st := h0.sinv
  unfold Solver.step
  split
  · -- finished
    rename_i hph
    exact ⟨fun hn => absurd hph hn, (fun sel h' => by cases h'), (fun site h' => by cases h')⟩
  · exact rinvT_finish' root rv s _ (by intro sel h'; cases h') (by intro f h'; cases h')
  · -- cancel, ok
    rename_i hph
    have hlive : s.phase ≠ .finished := by rw [hph]; intro e; cases e
    obtain ⟨hp, _⟩ := h1.live hlive
    have ht := h.live hlive
    have hup := State.unitPropagation_safe W root rv s.fuel s.st s.next hs hp ht
    split
    · rename_i f hu
      exact rinvT_fault root rv s hup hu
    · rename_i st terminal hu
      split
      · rename_i f hb
        exact rinvT_fault root rv _ (State.buildDerivationTree_safe st terminal) hb
      · exact rinvT_finish' root rv _ _ (by intro sel h'; cases h') (by intro f h'; cases h')
    · rename_i st hu
      have ht1 : TInv root rv st := hup.of_ok hu rfl
      split
      · rename_i f hb
        exact rinvT_fault root rv _ (PartialSolution.toPrioritize_safe st.ps) hb
      · exact rinvT_live root rv _ _ ht1 (by intro sel h'; cases h') (by intro f h'; cases h')
      · exact rinvT_live root rv _ _ ht1 (by intro sel h'; cases h') (by intro f h'; cases h')
  · -- prioritizing
    rename_i cur rest acc pr hph
    have hlive : s.phase ≠ .finished := by rw [hph]; intro e; cases e
    have ht := h.live hlive
    simp only
    split
    · exact rinvT_live root rv _ _ ht (by intro sel h'; cases h') (by intro f h'; cases h')
    · exact rinvT_live root rv _ _ ht (by intro sel h'; cases h') (by intro f h'; cases h')
  · -- picking
    rename_i acc o hph
    have hlive : s.phase ≠ .finished := by rw [hph]; intro e; cases e
    have ht := h.live hlive
    have ht1 : TInv root rv ({ s.st with ps := s.st.ps.afterPrioritize acc } : State P S V M Pr) :=
      ht.congr_fields rfl rfl rfl rfl
    simp only
    split
    · split
      · exact rinvT_finish' root rv s _ (by intro sel h'; cases h') (by intro f h'; cases h')
      · split
        · rename_i f hb
          exact rinvT_fault root rv _ (PartialSolution.extractSolution_safe (s.st.ps.afterPrioritize acc)) hb
        · refine rinvT_finish root rv _ _ ?_ (by intro site h'; cases h')
          intro sel' _
          exact ⟨ht1.gmono.levelMono, ht1.cause⟩
    · rename_i p
      split
      · exact rinvT_finish' root rv s _ (by intro sel h'; cases h') (by intro f h'; cases h')
      · have ht2 : TInv root rv ({ s.st with ps :=
            { s.st.ps.afterPrioritize acc with
              queue := SmallMap.remove (s.st.ps.afterPrioritize acc).queue p } } : State P S V M Pr) :=
          ht.congr_fields rfl rfl rfl rfl
        split
        · exact rinvT_finish' root rv _ _ (by intro sel h'; cases h') (by intro f h'; cases h')
        · rename_i t hterm
          split
          · rename_i f hb
            exact rinvT_fault root rv _ (Incompat.unwrapPositive_safe t) hb
          · exact rinvT_live root rv _ _ ht2 (by intro sel h'; cases h') (by intro f h'; cases h')
  · -- choosing, error
    exact rinvT_finish' root rv s _ (by intro sel h'; cases h') (by intro f h'; cases h')
  · -- choosing, none
    rename_i p t hph
    have hlive : s.phase ≠ .finished := by rw [hph]; intro e; cases e
    obtain ⟨hp, _⟩ := h1.live hlive
    have ht := h.live hlive
    obtain ⟨hnext, hterm, hall, hqn, hpos⟩ := h1.choosing p t hph
    simp only at hnext hterm hall hqn hpos
    split
    · rename_i f hb
      exact rinvT_fault root rv s (Incompat.noVersions_safe (V := V) (M := M) p t) hb
    · rename_i inc hinc
      obtain ⟨hterms, hdep⟩ := Incompat.noVersions_ok hinc
      split
      · rename_i f hb
        exact rinvT_fault root rv s (State.addIncompatibility_safe s.st inc) hb
      · rename_i st hadd
        exact rinvT_loopAgain root rv s st (State.tinv_addSingle hp ht hterms hdep hadd hpos)
  · -- choosing, some v
    rename_i p t v hph
    have hlive : s.phase ≠ .finished := by rw [hph]; intro e; cases e
    obtain ⟨hp, _⟩ := h1.live hlive
    have ht := h.live hlive
    obtain ⟨hnext, hterm, hfl⟩ := h1.choosing p t hph
    simp only at hnext hterm hfl
    split
    · exact rinvT_finish' root rv s _ (by intro sel h'; cases h') (by intro f h'; cases h')
    · rename_i hcont
      have hcont' : t.contains v = true := by
        cases hc : t.contains v with
        | true => rfl
        | false => rw [hc] at hcont; simp at hcont
      simp only
      split
      · exact rinvT_live root rv _ _ ht (by intro sel h'; cases h') (by intro f h'; cases h')
      · split
        · rename_i f hb
          exact rinvT_fault root rv _ (PartialSolution.addDecision_safe s.st.debug s.st.ps p v) hb
        · rename_i ps hps
          exact rinvT_loopAgain root rv _ _
            (tinv_decided W root rv hs hp ht rfl (fun i inc hi => hi) hp hfl hterm hcont' hps)
  · -- fetching, error
    exact rinvT_finish' root rv s _ (by intro sel h'; cases h') (by intro f h'; cases h')
  · -- fetching, unavailable
    rename_i p v m hph
    have hlive : s.phase ≠ .finished := by rw [hph]; intro e; cases e
    obtain ⟨hp, _⟩ := h1.live hlive
    have ht := h.live hlive
    obtain ⟨hnext, ⟨hall, hqn, hpos⟩, t, hterm, hcont⟩ := h1.fetching p v hph
    simp only at hnext hterm hall hqn hpos
    split
    · rename_i f hb
      exact rinvT_fault root rv s (State.addIncompatibility_safe s.st (Incompat.customVersion p v m)) hb
    · rename_i st hadd
      exact rinvT_loopAgain root rv s st
        (State.tinv_addSingle (tp := Term.pos (VersionSet.singleton v)) hp ht rfl rfl hadd hpos)
  · -- fetching, available
    rename_i p v deps hph
    have hlive : s.phase ≠ .finished := by rw [hph]; intro e; cases e
    obtain ⟨hp, _⟩ := h1.live hlive
    have ht := h.live hlive
    obtain ⟨hnext, hfl, t, hterm, hcont⟩ := h1.fetching p v hph
    simp only at hnext hterm hfl
    split
    · rename_i f hb
      exact rinvT_fault root rv s (State.addIncompatibilityFromDependencies_safe s.st p v deps) hb
    · rename_i st start stop hadd
      obtain ⟨hp1, eps⟩ := State.addIncompatibilityFromDependencies_pinv hadd hp
      have hpre := State.addIncompatibilityFromDependencies_prefix hadd
      simp only
      split
      · rename_i f hb
        exact rinvT_fault root rv _ (PartialSolution.addVersion_safe st.debug st.ps p v
          ((st.store.drop start).take (stop - start))) hb
      · rename_i ps hps
        have hfl1 : st.ps.InFlightOK p := eps ▸ hfl
        have hterm1 : st.ps.termIntersectionForPackage p = some t := eps ▸ hterm
        refine rinvT_loopAgain root rv _ _ ?_
        unfold PartialSolution.addVersion at hps
        split at hps
        · exact tinv_decided W root rv hs hp ht eps hpre hp1 hfl1 hterm1 hcont hps
        · rename_i hbt
          simp only at hps
          split at hps
          · exact tinv_decided W root rv hs hp ht eps hpre hp1 hfl1 hterm1 hcont hps
          · injection hps with hps; subst hps
            have hlvl : s.st.ps.currentDecisionLevel ≠ 0 := by
              intro h0
              have := (ht.rootinv.lvl0 h0).1
              rw [eps] at hbt
              rw [this] at hbt
              simp at hbt
            obtain ⟨_, _, pa, set, hpa, _⟩ := hfl
            have hne : s.st.ps.assignments ≠ [] := by
              intro e
              have := SmallMap.mem_of_get hpa
              rw [e] at this; cases this
            exact (ht.storeExt eps hpre hne (fun h0 => absurd h0 hlvl)).congr rfl rfl
  · -- anything else
    exact rinvT_finish' root rv s _ (by intro sel h'; cases h') (by intro f h'; cases h')

end Pubgrub

/-
Version-set homomorphisms (definitions).  The solver uses a version set only through the nine methods
of the trait and `==`; hence an injective map `f : S → S'` that commutes with all nine methods (with
versions carried along `ι : V → V'`) carries a run of the solver over `S` to a run over `S'`, request by
request.  Purpose: `Range V` over ANY linear order `V` (in particular the discrete `u32` and
`SemanticVersion` the crate's users have) embeds by `Range.map ι` into `Range V'` over a dense order
without end points (`V' = V ×ₗ ℚ`, `ι v = (v, 0)`), for which `Range` is a `LawfulVersionSet`; so every
theorem about runs proved for lawful version sets pulls back to `Range V`.
-/
import PubgrubProofs.SolverDefs

namespace Pubgrub
open VersionSet

/-- an injective homomorphism of version sets -/
structure VSetHom (S V S' V' : Type) [VersionSet S V] [VersionSet S' V'] where
  f : S → S'
  ι : V → V'
  f_inj : ∀ a b : S, f a = f b → a = b
  ι_inj : ∀ a b : V, ι a = ι b → a = b
  map_empty : f (empty : S) = (empty : S')
  map_full : f (full : S) = (full : S')
  map_singleton : ∀ v : V, f (singleton v : S) = (singleton (ι v) : S')
  map_complement : ∀ a : S, f (complement a) = complement (f a)
  map_intersection : ∀ a b : S, f (intersection a b) = intersection (f a) (f b)
  map_union : ∀ a b : S, f (union a b) = union (f a) (f b)
  map_isDisjoint : ∀ a b : S, isDisjoint (f a) (f b) = isDisjoint a b
  map_subsetOf : ∀ a b : S, subsetOf (f a) (f b) = subsetOf a b
  map_contains : ∀ (a : S) (v : V), contains (f a) (ι v) = contains a v

section Maps
variable {P S V S' V' M Pr E : Type} [VersionSet S V] [VersionSet S' V']

def Term.mapH (h : VSetHom S V S' V') : Term S → Term S'
  | .pos s => .pos (h.f s)
  | .neg s => .neg (h.f s)

def termsMapH (h : VSetHom S V S' V') (l : List (P × Term S)) : List (P × Term S') :=
  l.map fun kv => (kv.1, Term.mapH h kv.2)

def depsMapH (h : VSetHom S V S' V') (l : List (P × S)) : List (P × S') :=
  l.map fun kv => (kv.1, h.f kv.2)

def External.mapH (h : VSetHom S V S' V') : External P S V M → External P S' V' M
  | .notRoot p v => .notRoot p (h.ι v)
  | .noVersions p s => .noVersions p (h.f s)
  | .fromDependencyOf p s q t => .fromDependencyOf p (h.f s) q (h.f t)
  | .custom p s m => .custom p (h.f s) m

def DerivationTree.mapH (h : VSetHom S V S' V') : DerivationTree P S V M → DerivationTree P S' V' M
  | .external e => .external (External.mapH h e)
  | .derived terms sid c1 c2 => .derived (termsMapH h terms) sid (DerivationTree.mapH h c1) (DerivationTree.mapH h c2)

def Kind.mapH (h : VSetHom S V S' V') : Kind P S V M → Kind P S' V' M
  | .notRoot p v => .notRoot p (h.ι v)
  | .noVersions p s => .noVersions p (h.f s)
  | .fromDependencyOf p s q t => .fromDependencyOf p (h.f s) q (h.f t)
  | .derivedFrom a b => .derivedFrom a b
  | .custom p s m => .custom p (h.f s) m

def Incompat.mapH (h : VSetHom S V S' V') (i : Incompat P S V M) : Incompat P S' V' M :=
  { terms := termsMapH h i.terms, kind := Kind.mapH h i.kind }

def DatedDerivation.mapH (h : VSetHom S V S' V') (d : DatedDerivation S) : DatedDerivation S' :=
  { globalIndex := d.globalIndex, decisionLevel := d.decisionLevel, cause := d.cause,
    accumulated := Term.mapH h d.accumulated }

def AssignInter.mapH (h : VSetHom S V S' V') : AssignInter S V → AssignInter S' V'
  | .decision g v t => .decision g (h.ι v) (Term.mapH h t)
  | .derivations t => .derivations (Term.mapH h t)

def PackageAssignments.mapH (h : VSetHom S V S' V') (pa : PackageAssignments S V) :
    PackageAssignments S' V' :=
  { smallest := pa.smallest, highest := pa.highest, dated := pa.dated.map (DatedDerivation.mapH h),
    inter := AssignInter.mapH h pa.inter }

def PartialSolution.mapH (h : VSetHom S V S' V') (ps : PartialSolution P S V Pr) :
    PartialSolution P S' V' Pr :=
  { nextGlobalIndex := ps.nextGlobalIndex, currentDecisionLevel := ps.currentDecisionLevel,
    assignments := ps.assignments.map fun kv => (kv.1, PackageAssignments.mapH h kv.2),
    queue := ps.queue, changed := ps.changed, hasEverBacktracked := ps.hasEverBacktracked }

def State.mapH (h : VSetHom S V S' V') (st : State P S V M Pr) : State P S' V' M Pr :=
  { rootPackage := st.rootPackage, rootVersion := h.ι st.rootVersion,
    incompatibilities := st.incompatibilities, contradicted := st.contradicted,
    mergedDependencies := st.mergedDependencies, ps := PartialSolution.mapH h st.ps,
    store := st.store.map (Incompat.mapH h), buffer := st.buffer, debug := st.debug }

def Phase.mapH (h : VSetHom S V S' V') : Phase P S V Pr → Phase P S' V' Pr
  | .cancel => .cancel
  | .prioritizing cur rest acc => .prioritizing (cur.1, h.f cur.2) (depsMapH h rest) acc
  | .picking acc => .picking acc
  | .choosing p t => .choosing p (Term.mapH h t)
  | .fetching p v => .fetching p (h.ι v)
  | .finished => .finished

def SolverState.mapH (h : VSetHom S V S' V') (s : SolverState P S V M Pr) : SolverState P S' V' M Pr :=
  { st := State.mapH h s.st, added := s.added.map fun kv => (kv.1, h.ι kv.2), next := s.next,
    phase := Phase.mapH h s.phase, fuel := s.fuel }

def Request.mapH (h : VSetHom S V S' V') : Request P S V M Pr E → Request P S' V' M Pr E
  | .shouldCancel => .shouldCancel
  | .prioritize p s => .prioritize p (h.f s)
  | .pick q => .pick q
  | .chooseVersion p s => .chooseVersion p (h.f s)
  | .getDependencies p v => .getDependencies p (h.ι v)
  | .solution sel => .solution (sel.map fun kv => (kv.1, h.ι kv.2))
  | .noSolution t => .noSolution (DerivationTree.mapH h t)
  | .errorInShouldCancel e => .errorInShouldCancel e
  | .errorChoosingPackageVersion e => .errorChoosingPackageVersion e
  | .errorRetrievingDependencies p v e => .errorRetrievingDependencies p (h.ι v) e
  | .failure m => .failure m
  | .fault f => .fault f
  | .protocolError m => .protocolError m

def Answer.mapH (h : VSetHom S V S' V') : Answer P S V M Pr E → Answer P S' V' M Pr E
  | .ok => .ok
  | .priority pr => .priority pr
  | .picked p => .picked p
  | .version v => .version (v.map h.ι)
  | .unavailable m => .unavailable m
  | .available ds => .available (depsMapH h ds)
  | .error e => .error e

def DepsAnswer.mapH (h : VSetHom S V S' V') : DepsAnswer P S M → DepsAnswer P S' M
  | .unavailable m => .unavailable m
  | .available ds => .available (depsMapH h ds)

/-- the image of a registry: the offered versions are carried along `ι`; a version of `V'` outside the
image of `ι` (recognised by the partial inverse `back`) is offered by nobody, its dependencies are
irrelevant (no dependencies) -/
def World.mapH (h : VSetHom S V S' V') (back : V' → Option V) (W : World P S V M) :
    World P S' V' M :=
  { versions := fun p => (W.versions p).map h.ι,
    deps := fun p v' => match back v' with
      | some v => DepsAnswer.mapH h (W.deps p v)
      | none => .available [] }

end Maps
end Pubgrub

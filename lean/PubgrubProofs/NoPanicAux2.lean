/-
Helpers for `NoPanic.lean`, part 2: the invariant `XInv` (ids in the index, in `merged_dependencies`
are valid; every package with an assignment or in the propagation buffer, and every key of an indexed
incompatibility, has an index entry; no stored term is `Term.any`), and its preservation by
`merge_incompatibility`, which does not panic.
-/
import PubgrubProofs.NoPanicAux1

set_option linter.unusedSectionVars false
set_option linter.unusedVariables false

namespace Pubgrub
open VersionSet

section
variable {P S V M Pr : Type} [DecidableEq P] [VersionSet S V] [DecidableEq S] [DecidableEq V]
  [LawfulVersionSet S V]

/-- every key of the incompatibility has an entry in the index -/
def KeysIndexed (idx : List (P × List Nat)) (inc : Incompat P S V M) : Prop :=
  ∀ kv ∈ inc.terms, (SmallMap.get idx kv.1).isSome = true

/-- the index lists only valid ids, of incompatibilities all of whose keys have an index entry -/
def IdxOK (idx : List (P × List Nat)) (store : List (Incompat P S V M)) : Prop :=
  ∀ p ids, SmallMap.get idx p = some ids → ∀ id ∈ ids,
    ∃ inc, store[id]? = some inc ∧ KeysIndexed idx inc

/-- the additional invariant of the solver state behind `no_panic` -/
structure XInv (st : State P S V M Pr) : Prop where
  idx : IdxOK st.incompatibilities st.store
  md : ∀ key ids, SmallMap.get st.mergedDependencies key = some ids → ∀ id ∈ ids, id < st.store.length
  asg : ∀ p pa, st.ps.getPA p = some pa → (SmallMap.get st.incompatibilities p).isSome = true
  buf : ∀ p ∈ st.buffer, (SmallMap.get st.incompatibilities p).isSome = true
  noAny : st.debug = true → UnionCanon S V ∧ ∀ inc ∈ st.store, inc.NoAny

namespace State

theorem isSome_updIndex (idx : List (P × List Nat)) (k q : P) (f : List Nat → List Nat)
    (h : (SmallMap.get idx q).isSome = true) : (SmallMap.get (updIndex idx k f) q).isSome = true := by
  by_cases hq : q = k
  · subst hq; rw [get_updIndex_self]; rfl
  · rw [get_updIndex_ne idx k q f hq]; exact h

theorem isSome_foldl_updIndex (f : List Nat → List Nat) (terms : List (P × Term S)) (q : P) :
    ∀ idx : List (P × List Nat), (SmallMap.get idx q).isSome = true →
      (SmallMap.get (terms.foldl (fun idx kv => updIndex idx kv.1 f) idx) q).isSome = true := by
  induction terms with
  | nil => intro idx h; exact h
  | cons x rest ih => intro idx h; exact ih _ (isSome_updIndex idx x.1 q f h)

theorem isSome_foldl_updIndex_new (f : List Nat → List Nat) (terms : List (P × Term S)) (q : P)
    (hq : q ∈ terms.map Prod.fst) :
    ∀ idx : List (P × List Nat),
      (SmallMap.get (terms.foldl (fun idx kv => updIndex idx kv.1 f) idx) q).isSome = true := by
  induction terms with
  | nil => cases hq
  | cons x rest ih =>
    intro idx
    simp only [List.foldl_cons]
    by_cases hx : q = x.1
    · apply isSome_foldl_updIndex
      subst hx; rw [get_updIndex_self]; rfl
    · apply ih
      simp only [List.map_cons, List.mem_cons] at hq
      rcases hq with hq | hq
      · exact absurd hq hx
      · exact hq

/-- where the ids of an index entry come from after a fold of `updIndex` -/
theorem mem_foldl_updIndex (f : List Nat → List Nat) (newId : Nat → Prop)
    (hf : ∀ ids id, id ∈ f ids → id ∈ ids ∨ newId id) (terms : List (P × Term S)) (q : P) :
    ∀ (idx : List (P × List Nat)) (ids' : List Nat),
      SmallMap.get (terms.foldl (fun idx kv => updIndex idx kv.1 f) idx) q = some ids' →
      ∀ id ∈ ids', newId id ∨ ∃ ids, SmallMap.get idx q = some ids ∧ id ∈ ids := by
  induction terms with
  | nil => intro idx ids' h id hid; exact Or.inr ⟨ids', h, hid⟩
  | cons x rest ih =>
    intro idx ids' h id hid
    simp only [List.foldl_cons] at h
    rcases ih _ ids' h id hid with hn | ⟨ids1, h1, hid1⟩
    · exact Or.inl hn
    · by_cases hq : q = x.1
      · subst hq
        rw [get_updIndex_self] at h1
        injection h1 with h1; subst h1
        rcases hf _ _ hid1 with h2 | h2
        · right
          cases hg : SmallMap.get idx x.1 with
          | none => rw [hg] at h2; simp at h2
          | some ids0 => rw [hg] at h2; exact ⟨ids0, rfl, h2⟩
        · exact Or.inl h2
      · rw [get_updIndex_ne idx x.1 q f hq] at h1
        exact Or.inr ⟨ids1, h1, hid1⟩

/-- the index stays sound through a fold of `updIndex` -/
theorem idxOK_foldl {store store' : List (Incompat P S V M)} {idx : List (P × List Nat)}
    (f : List Nat → List Nat) (terms : List (P × Term S)) (newId : Nat → Prop)
    (hpre : ∀ (i : Nat) (inc : Incompat P S V M), store[i]? = some inc → store'[i]? = some inc)
    (hidx : IdxOK idx store)
    (hf : ∀ ids id, id ∈ f ids → id ∈ ids ∨ newId id)
    (hnew : ∀ id, newId id → ∃ inc, store'[id]? = some inc ∧
      ∀ kv ∈ inc.terms, kv.1 ∈ terms.map Prod.fst ∨ (SmallMap.get idx kv.1).isSome = true) :
    IdxOK (terms.foldl (fun idx kv => updIndex idx kv.1 f) idx) store' := by
  intro p ids' hget id hid
  rcases mem_foldl_updIndex f newId hf terms p idx ids' hget id hid with hn | ⟨ids, hg, hm⟩
  · obtain ⟨inc, hinc, hk⟩ := hnew id hn
    refine ⟨inc, hinc, ?_⟩
    intro kv hkv
    rcases hk kv hkv with h1 | h1
    · exact isSome_foldl_updIndex_new f terms kv.1 h1 idx
    · exact isSome_foldl_updIndex f terms kv.1 idx h1
  · obtain ⟨inc, hinc, hk⟩ := hidx p ids hg id hm
    refine ⟨inc, hpre id inc hinc, ?_⟩
    intro kv hkv
    exact isSome_foldl_updIndex f terms kv.1 idx (hk kv hkv)

theorem getElem?_append_of_some {α : Type} {l : List α} (extra : List α) {i : Nat} {a : α} (h : l[i]? = some a) :
    (l ++ extra)[i]? = some a := by
  rw [List.getElem?_append_left (List.getElem?_eq_some_iff.1 h).1]; exact h

/-- `find_map` over the merge candidates does not panic -/
theorem findMerge_total (W : World P S V M) (root : P) (rv : V) {store : List (Incompat P S V M)}
    (hs : StoreInv W root rv store) {id : Nat} {inc : Incompat P S V M} (hinc : store[id]? = some inc) :
    ∀ ids : List Nat, (∀ x ∈ ids, x < store.length) → ∃ r, findMerge store inc ids = .ok r := by
  intro ids
  induction ids with
  | nil => intro _; exact ⟨_, rfl⟩
  | cons a rest ih =>
    intro h
    have ha : a < store.length := h a List.mem_cons_self
    obtain ⟨pastInc, hpast⟩ : ∃ pi, store[a]? = some pi := ⟨store[a], List.getElem?_eq_getElem ha⟩
    obtain ⟨r, hr⟩ := Incompat.mergeDependents_ok W root rv store id a inc pastInc (hs id inc hinc)
      (hs a pastInc hpast)
    unfold findMerge
    simp only [bind, Except.bind, pure, Except.pure, storeGet_some hpast, hr]
    cases r with
    | some merged => exact ⟨_, rfl⟩
    | none => exact ih (fun x hx => h x (List.mem_cons_of_mem _ hx))

end State

/-- extending the store keeps `XInv`, if the new entries have no `Term.any` -/
theorem XInv.storeAppend {st : State P S V M Pr} (h : XInv st) (extra : List (Incompat P S V M))
    (hx : st.debug = true → ∀ inc ∈ extra, inc.NoAny) :
    XInv ({ st with store := st.store ++ extra } : State P S V M Pr) := by
  refine ⟨?_, ?_, h.asg, h.buf, ?_⟩
  · intro p ids hg id hid
    obtain ⟨inc, hinc, hk⟩ := h.idx p ids hg id hid
    exact ⟨inc, State.getElem?_append_of_some extra hinc, hk⟩
  · intro key ids hg id hid
    have := h.md key ids hg id hid
    simp only [List.length_append]; omega
  · intro hd
    obtain ⟨hU, hall⟩ := h.noAny hd
    refine ⟨hU, ?_⟩
    intro inc hm
    rcases List.mem_append.1 hm with hm | hm
    · exact hall inc hm
    · exact hx hd inc hm

namespace State

/-- `merge_incompatibility` does not panic and keeps the invariant; it indexes the incompatibility
(or the merged one that replaces it) under all its keys -/
theorem mergeIncompatibility_np (W : World P S V M) (root : P) (rv : V) {st : State P S V M Pr} {id : Nat}
    {inc : Incompat P S V M} (hs : SInv W root rv st) (hx : XInv st) (hinc : st.store[id]? = some inc) :
    NoPanic (mergeIncompatibility st id) (fun st' => XInv st' ∧
      (∀ q, (SmallMap.get st.incompatibilities q).isSome = true →
        (SmallMap.get st'.incompatibilities q).isSome = true) ∧
      (inc.asDependency = none → KeysIndexed st'.incompatibilities inc)) := by
  -- the second half of the function, on a state that satisfies the invariant
  have phase2 : ∀ (st1 : State P S V M Pr) (id1 : Nat) (inc1 : Incompat P S V M), XInv st1 →
      st1.store[id1]? = some inc1 →
      XInv ({ st1 with incompatibilities :=
        inc1.terms.foldl (fun idx kv => updIndex idx kv.1 (fun ids => ids ++ [id1])) st1.incompatibilities } :
          State P S V M Pr) ∧
      (∀ q, (SmallMap.get st1.incompatibilities q).isSome = true →
        (SmallMap.get (inc1.terms.foldl (fun idx kv => updIndex idx kv.1 (fun ids => ids ++ [id1]))
          st1.incompatibilities) q).isSome = true) ∧
      KeysIndexed (inc1.terms.foldl (fun idx kv => updIndex idx kv.1 (fun ids => ids ++ [id1]))
        st1.incompatibilities) inc1 := by
    intro st1 id1 inc1 hx1 hinc1
    have hmono := fun q => isSome_foldl_updIndex (S := S) (fun ids => ids ++ [id1]) inc1.terms q st1.incompatibilities
    refine ⟨⟨?_, hx1.md, ?_, ?_, hx1.noAny⟩, hmono, ?_⟩
    · refine idxOK_foldl _ inc1.terms (fun x => x = id1) (fun i inc h => h) hx1.idx ?_ ?_
      · intro ids x hxm
        rcases List.mem_append.1 hxm with h | h
        · exact Or.inl h
        · exact Or.inr (List.mem_singleton.1 h)
      · intro x hxe
        subst hxe
        exact ⟨inc1, hinc1, fun kv hkv => Or.inl (List.mem_map.2 ⟨kv, hkv, rfl⟩)⟩
    · intro p pa hpa; exact hmono p (hx1.asg p pa hpa)
    · intro p hp; exact hmono p (hx1.buf p hp)
    · intro kv hkv
      exact isSome_foldl_updIndex_new _ inc1.terms kv.1 (List.mem_map.2 ⟨kv, hkv, rfl⟩) _
  have noAny1 : ∀ (st1 : State P S V M Pr) (id1 : Nat) (inc1 : Incompat P S V M), XInv st1 →
      st1.store[id1]? = some inc1 →
      (st1.debug && inc1.terms.any (fun kv => decide (kv.2 = (Term.any : Term S)))) = false := by
    intro st1 id1 inc1 hx1 hinc1
    cases hd : st1.debug with
    | false => rfl
    | true =>
      rw [Bool.true_and]
      exact ((hx1.noAny hd).2 inc1 (List.mem_of_getElem? hinc1)).any_false
  unfold mergeIncompatibility
  simp only [bind, Except.bind, pure, Except.pure, throw, throwThe, MonadExceptOf.throw, storeGet_some hinc]
  cases hdep : inc.asDependency with
  | none =>
    simp only [noAny1 st id inc hx hinc]
    obtain ⟨h1, h2, h3⟩ := phase2 st id inc hx hinc
    exact ⟨h1, h2, fun _ => h3⟩
  | some key =>
    simp only
    have hvalid : ∀ x ∈ (SmallMap.get st.mergedDependencies key).getD [], x < st.store.length := by
      intro x hxm
      cases hg : SmallMap.get st.mergedDependencies key with
      | none => rw [hg] at hxm; simp at hxm
      | some ids => rw [hg] at hxm; exact hx.md key ids hg x hxm
    obtain ⟨r, hr⟩ := findMerge_total W root rv hs.store hinc _ hvalid
    rw [hr]
    cases r with
    | none =>
      simp only
      have hx1 : XInv ({ st with mergedDependencies := (SmallMap.insert st.mergedDependencies key
          ((SmallMap.get st.mergedDependencies key).getD [] ++ [id])) } : State P S V M Pr) := by
        refine ⟨hx.idx, ?_, hx.asg, hx.buf, hx.noAny⟩
        intro key' ids hg x hxm
        simp only [SmallMap.get_insert] at hg
        split at hg
        · injection hg with hg; subst hg
          rcases List.mem_append.1 hxm with h | h
          · exact hvalid x h
          · rw [List.mem_singleton.1 h]; exact (List.getElem?_eq_some_iff.1 hinc).1
        · exact hx.md key' ids hg x hxm
      simp only [noAny1 _ id inc hx1 hinc]
      obtain ⟨h1, h2, h3⟩ := phase2 _ id inc hx1 hinc
      exact ⟨h1, h2, fun h => by cases h⟩
    | some pm =>
      obtain ⟨past, merged⟩ := pm
      simp only
      obtain ⟨pastInc, hpast, hm⟩ := State.findMerge_ok hr
      have gm := Incompat.mergeDependents_good W root rv st.store id past inc pastInc (hs.store id inc hinc)
        (hs.store past pastInc hpast) merged hm st.store.length
      -- the merged incompatibility is a dependency: no `Term.any`
      have hna : merged.NoAny := by
        obtain ⟨p1, p2, s1, s2, t, _, _, _, _, _, _, hmk⟩ :=
          Incompat.mergeDependents_spec W root rv st.store id past inc pastInc (hs.store id inc hinc)
            (hs.store past pastInc hpast) merged hm
        rw [hmk]; exact Incompat.noAny_fromDependency _ _ _
      have hmono := fun q => isSome_foldl_updIndex (S := S) (fun ids => ids.filter (· ≠ past)) merged.terms q
        st.incompatibilities
      have hx1 : XInv ({ st with
          store := st.store ++ [merged],
          incompatibilities := merged.terms.foldl
            (fun idx kv => updIndex idx kv.1 (fun ids => ids.filter (· ≠ past))) st.incompatibilities,
          mergedDependencies := (SmallMap.insert st.mergedDependencies key
            (((SmallMap.get st.mergedDependencies key).getD []).map
              fun x => if x = past then st.store.length else x)) } : State P S V M Pr) := by
        refine ⟨?_, ?_, ?_, ?_, ?_⟩
        · refine idxOK_foldl _ merged.terms (fun _ => False)
            (fun i inc h => getElem?_append_of_some [merged] h) hx.idx ?_ ?_
          · intro ids x hxm
            exact Or.inl (List.mem_filter.1 hxm).1
          · intro x hf; exact hf.elim
        · intro key' ids hg x hxm
          simp only [List.length_append, List.length_cons, List.length_nil]
          simp only [SmallMap.get_insert] at hg
          split at hg
          · injection hg with hg; subst hg
            rw [List.mem_map] at hxm
            obtain ⟨y, hy, rfl⟩ := hxm
            split
            · omega
            · have := hvalid y hy; omega
          · have := hx.md key' ids hg x hxm; omega
        · intro p pa hpa; exact hmono p (hx.asg p pa hpa)
        · intro p hp; exact hmono p (hx.buf p hp)
        · intro hd
          obtain ⟨hU, hall⟩ := hx.noAny hd
          refine ⟨hU, ?_⟩
          intro inc' hm'
          rcases List.mem_append.1 hm' with hm' | hm'
          · exact hall inc' hm'
          · rw [List.mem_singleton.1 hm']; exact hna
      have hnew : (st.store ++ [merged])[st.store.length]? = some merged := by
        rw [List.getElem?_append_right (Nat.le_refl _)]; simp
      simp only [storeGet_some hnew, noAny1 _ st.store.length merged hx1 hnew]
      obtain ⟨h1, h2, h3⟩ := phase2 _ st.store.length merged hx1 hnew
      exact ⟨h1, fun q hq => h2 q (hmono q hq), fun h => by cases h⟩

end State
end
end Pubgrub

/-
TARGET FILE: PubgrubProofs/CollapseSound.lean
`collapse_no_versions` keeps the explanation true of the existing versions (property C09).
Model: `DerivationTree.collapseNoVersions`, `mergeNoVersions` in PubgrubModel/Report.lean.
Vocabulary: PubgrubProofs/ReportDefs.lean (`Entails`, `Sound`, `World.Exists`, `External.TrueInExisting`,
`LeavesTrueExisting`, `NoVersionsOnlyBesideLeaf`, …), PubgrubProofs/TreeDefs.lean (`External.TrueIn`, `terms`).
`collapse_sound` and `collapse_top_forbids_root` are false as stated (counterexample below): they are
proved as `_partial` with the extra hypothesis `hpc`, and under the collapse-free `ResolutionShaped`.
-/
import PubgrubProofs.ReportDefs
import PubgrubProofs.TermLaws

namespace Pubgrub
open VersionSet

variable {P S V M : Type} [DecidableEq P] [VersionSet S V] [DecidableEq S] [LawfulVersionSet S V]

/-- every set occurring in a leaf of the tree is valid (canonical) -/
def External.SetsValid : External P S V M → Prop
  | .notRoot _ _ => True
  | .noVersions _ s => LawfulVersionSet.Valid V s
  | .fromDependencyOf _ s _ t => LawfulVersionSet.Valid V s ∧ LawfulVersionSet.Valid V t
  | .custom _ s _ => LawfulVersionSet.Valid V s

/-- in a tree built by resolution steps, a `NoVersions` leaf next to a dependency leaf is about one of
the two packages of that dependency (the pivot of the resolution step) -/
def DerivationTree.NoVersionsTouchesSibling : DerivationTree P S V M → Prop
  | .external _ => True
  | .derived _ _ c1 c2 =>
      (∀ x s p1 r1 p2 r2, c1 = .external (.noVersions x s) → c2 = .external (.fromDependencyOf p1 r1 p2 r2) →
        x = p1 ∨ x = p2) ∧
      (∀ x s p1 r1 p2 r2, c2 = .external (.noVersions x s) → c1 = .external (.fromDependencyOf p1 r1 p2 r2) →
        x = p1 ∨ x = p2) ∧
      c1.NoVersionsTouchesSibling ∧ c2.NoVersionsTouchesSibling

omit [DecidableEq P] [DecidableEq S] [LawfulVersionSet S V] in
theorem cs_termsTrue_single (σ : P → Option V) (p : P) (t : Term S) :
    TermsTrue σ [(p, t)] ↔ t.eval (σ p) = true := by
  simp [TermsTrue]

omit [DecidableEq P] [DecidableEq S] [LawfulVersionSet S V] in
theorem cs_termsTrue_pair (σ : P → Option V) (p q : P) (t u : Term S) :
    TermsTrue σ [(p, t), (q, u)] ↔ t.eval (σ p) = true ∧ u.eval (σ q) = true := by
  simp only [TermsTrue, List.mem_cons, List.not_mem_nil, or_false, Prod.mk.injEq]
  constructor
  · intro h; exact ⟨h p t (Or.inl ⟨rfl, rfl⟩), h q u (Or.inr ⟨rfl, rfl⟩)⟩
  · rintro ⟨h1, h2⟩ p' t' (⟨rfl, rfl⟩ | ⟨rfl, rfl⟩) <;> assumption

omit [DecidableEq S] [LawfulVersionSet S V] [DecidableEq P] in
theorem cs_eval_pos_iff (s : S) (c : Option V) :
    (Term.pos s).eval c = true ↔ ∃ v, c = some v ∧ contains s v = true := by
  cases c <;> simp [Term.eval]

omit [DecidableEq S] [LawfulVersionSet S V] [DecidableEq P] in
theorem cs_eval_neg_iff (s : S) (c : Option V) :
    (Term.neg s).eval c = true ↔ ∀ v, c = some v → contains s v = false := by
  cases c <;> simp [Term.eval]

omit [LawfulVersionSet S V] in
theorem cs_dep_terms (p : P) (s : S) (q : P) (t : S) :
    (External.fromDependencyOf p s q t : External P S V M).terms =
      if q = p then [(p, Term.pos (intersection s (complement t)))]
      else if t = (empty : S) then [(p, Term.pos s)]
      else [(p, Term.pos s), (q, Term.neg t)] := by
  simp [External.terms, Incompat.fromDependency]

omit [DecidableEq P] [DecidableEq S] [LawfulVersionSet S V] in
/-- over the existing versions the clause of a true `NoVersions` leaf is never all-true -/
theorem cs_nv_not_true (W : World P S V M) (x : P) (s : S)
    (hnv : ∀ v ∈ W.versions x, contains s v = false) (σ : P → Option V) (hw : Within W.Exists σ) :
    ¬ TermsTrue σ [(x, Term.pos s)] := by
  rw [cs_termsTrue_single, cs_eval_pos_iff]
  rintro ⟨v, hv, hc⟩
  have := hnv v (hw x v hv)
  simp [this] at hc

/-- widening the dependent's set keeps the clause of a dependency leaf true -/
theorem cs_dep_terms_left (σ : P → Option V) (p1 : P) (r1 : S) (p2 : P) (r2 s : S)
    (h1 : LawfulVersionSet.Valid V r1) (h2 : LawfulVersionSet.Valid V r2) (hs : LawfulVersionSet.Valid V s)
    (h : TermsTrue σ (External.fromDependencyOf p1 r1 p2 r2 : External P S V M).terms) :
    TermsTrue σ (External.fromDependencyOf p1 (union r1 s) p2 r2 : External P S V M).terms := by
  rw [cs_dep_terms] at h ⊢
  by_cases hp : p2 = p1
  · rw [if_pos hp] at h ⊢
    rw [cs_termsTrue_single, cs_eval_pos_iff] at h ⊢
    obtain ⟨v, hv, hc⟩ := h
    refine ⟨v, hv, ?_⟩
    rw [LawfulVersionSet.contains_intersection _ _ _ h1 (LawfulVersionSet.valid_complement _ h2)] at hc
    rw [LawfulVersionSet.contains_intersection _ _ _ (LawfulVersionSet.valid_union _ _ h1 hs)
      (LawfulVersionSet.valid_complement _ h2), LawfulVersionSet.contains_union _ _ _ h1 hs]
    simp only [Bool.and_eq_true] at hc ⊢
    simp [hc.1, hc.2]
  · rw [if_neg hp] at h ⊢
    by_cases he : r2 = (empty : S)
    · rw [if_pos he] at h ⊢
      rw [cs_termsTrue_single, cs_eval_pos_iff] at h ⊢
      obtain ⟨v, hv, hc⟩ := h
      refine ⟨v, hv, ?_⟩
      rw [LawfulVersionSet.contains_union _ _ _ h1 hs]; simp [hc]
    · rw [if_neg he] at h ⊢
      rw [cs_termsTrue_pair, cs_eval_pos_iff] at h ⊢
      obtain ⟨⟨v, hv, hc⟩, hn⟩ := h
      refine ⟨⟨v, hv, ?_⟩, hn⟩
      rw [LawfulVersionSet.contains_union _ _ _ h1 hs]; simp [hc]

/-- widening the dependency's set by versions that are not selected keeps the clause true -/
theorem cs_dep_terms_right (σ : P → Option V) (p1 : P) (r1 : S) (p2 : P) (r2 s : S) (hne : p2 ≠ p1)
    (h2 : LawfulVersionSet.Valid V r2) (hs : LawfulVersionSet.Valid V s)
    (hsel : ∀ v, σ p2 = some v → contains s v = false)
    (h : TermsTrue σ (External.fromDependencyOf p1 r1 p2 r2 : External P S V M).terms) :
    TermsTrue σ (External.fromDependencyOf p1 r1 p2 (union r2 s) : External P S V M).terms := by
  rw [cs_dep_terms, if_neg hne] at h ⊢
  have hp1 : (Term.pos r1).eval (σ p1) = true := by
    split at h
    · exact (cs_termsTrue_single _ _ _).1 h
    · exact ((cs_termsTrue_pair _ _ _ _ _).1 h).1
  have hp2 : ∀ v, σ p2 = some v → contains r2 v = false := by
    split at h
    · next he => intro v _; rw [he]; exact LawfulVersionSet.contains_empty v
    · exact (cs_eval_neg_iff _ _).1 ((cs_termsTrue_pair _ _ _ _ _).1 h).2
  split
  · exact (cs_termsTrue_single _ _ _).2 hp1
  · refine (cs_termsTrue_pair _ _ _ _ _).2 ⟨hp1, (cs_eval_neg_iff _ _).2 ?_⟩
    intro v hv
    rw [LawfulVersionSet.contains_union _ _ _ h2 hs, hp2 v hv, hsel v hv]; rfl
/-! ### equations of `collapseNoVersions` (the patterns of the definition overlap) -/

omit [DecidableEq S] [LawfulVersionSet S V] in
theorem collapse_ext (e : External P S V M) :
    (DerivationTree.external e).collapseNoVersions = .ok (.external e) := by
  simp only [DerivationTree.collapseNoVersions]

omit [DecidableEq S] [LawfulVersionSet S V] in
theorem collapse_arm1 (T : List (P × Term S)) (sid : Option Nat) (p : P) (r : S) (c2 : DerivationTree P S V M) :
    (DerivationTree.derived T sid (.external (.noVersions p r)) c2).collapseNoVersions =
      match c2.collapseNoVersions with
      | .error e => .error e
      | .ok c2' =>
        match c2'.mergeNoVersions p r with
        | .error e => .error e
        | .ok (some t) => .ok t
        | .ok none => .ok (.derived T sid (.external (.noVersions p r)) c2') := by
  simp only [DerivationTree.collapseNoVersions]
  rfl

omit [DecidableEq S] [LawfulVersionSet S V] in
theorem collapse_arm2 (T : List (P × Term S)) (sid : Option Nat) (p : P) (r : S) (c1 : DerivationTree P S V M)
    (h1 : c1.isNoVersions = false) :
    (DerivationTree.derived T sid c1 (.external (.noVersions p r))).collapseNoVersions =
      match c1.collapseNoVersions with
      | .error e => .error e
      | .ok c1' =>
        match c1'.mergeNoVersions p r with
        | .error e => .error e
        | .ok (some t) => .ok t
        | .ok none => .ok (.derived T sid c1' (.external (.noVersions p r))) := by
  cases c1 with
  | external e =>
    cases e <;> first
      | (simp [DerivationTree.isNoVersions] at h1; done)
      | (simp only [DerivationTree.collapseNoVersions]; try rfl)
  | derived => simp only [DerivationTree.collapseNoVersions]; rfl

omit [DecidableEq S] [LawfulVersionSet S V] in
theorem collapse_arm3 (T : List (P × Term S)) (sid : Option Nat) (c1 c2 : DerivationTree P S V M)
    (h1 : c1.isNoVersions = false) (h2 : c2.isNoVersions = false) :
    (DerivationTree.derived T sid c1 c2).collapseNoVersions =
      match c1.collapseNoVersions, c2.collapseNoVersions with
      | .ok c1', .ok c2' => .ok (.derived T sid c1' c2')
      | .error e, _ => .error e
      | _, .error e => .error e := by
  cases c1 with
  | external e =>
    cases c2 with
    | external e2 =>
      cases e <;> cases e2 <;> first
        | (simp [DerivationTree.isNoVersions] at h1; done)
        | (simp [DerivationTree.isNoVersions] at h2; done)
        | (simp only [DerivationTree.collapseNoVersions]; try rfl)
    | derived =>
      cases e <;> first
        | (simp [DerivationTree.isNoVersions] at h1; done)
        | (simp only [DerivationTree.collapseNoVersions]; try rfl)
  | derived =>
    cases c2 with
    | external e2 =>
      cases e2 <;> first
        | (simp [DerivationTree.isNoVersions] at h2; done)
        | (simp only [DerivationTree.collapseNoVersions]; try rfl)
    | derived => simp only [DerivationTree.collapseNoVersions]; rfl

omit [DecidableEq P] [VersionSet S V] [DecidableEq S] [LawfulVersionSet S V] in
theorem cs_isNoVersions_iff (c : DerivationTree P S V M) :
    c.isNoVersions = true ↔ ∃ x s, c = .external (.noVersions x s) := by
  cases c with
  | external e => cases e <;> simp [DerivationTree.isNoVersions]
  | derived => simp [DerivationTree.isNoVersions]

/-! ### `mergeNoVersions` -/

omit [DecidableEq S] [LawfulVersionSet S V] in
theorem cs_merge_none (c : DerivationTree P S V M) (x : P) (s : S)
    (h : c.mergeNoVersions x s = .ok none) :
    c.isNoVersionsOrCustom = true ∧ c.NoVersionsOnlyBesideLeaf := by
  cases c with
  | external e =>
    cases e <;> simp [DerivationTree.mergeNoVersions, DerivationTree.isNoVersionsOrCustom,
      DerivationTree.NoVersionsOnlyBesideLeaf] at h ⊢
    split at h <;> simp at h
  | derived => simp [DerivationTree.mergeNoVersions] at h

/-- a derived node or a dependency leaf: what collapsing a derived node can produce -/
def DerivationTree.isDerivedOrDep : DerivationTree P S V M → Bool
  | .derived _ _ _ _ => true
  | .external (.fromDependencyOf _ _ _ _) => true
  | _ => false

omit [DecidableEq S] [LawfulVersionSet S V] in
theorem merge_some_shape (c : DerivationTree P S V M) (x : P) (s : S) (t : DerivationTree P S V M)
    (h : c.mergeNoVersions x s = .ok (some t)) : t.isDerivedOrDep = true := by
  cases c with
  | external e =>
    cases e <;> simp [DerivationTree.mergeNoVersions] at h
    split at h <;> simp at h <;> subst h <;> rfl
  | derived =>
    simp [DerivationTree.mergeNoVersions] at h
    subst h; rfl

omit [DecidableEq S] [LawfulVersionSet S V] in
/-- collapsing a derived node gives a derived node or a dependency leaf -/
theorem collapse_derived_shape (T : List (P × Term S)) (sid : Option Nat) (c1 c2 c' : DerivationTree P S V M)
    (h : (DerivationTree.derived T sid c1 c2).collapseNoVersions = .ok c') : c'.isDerivedOrDep = true := by
  by_cases n1 : c1.isNoVersions = true
  · obtain ⟨x, s, rfl⟩ := (cs_isNoVersions_iff c1).1 n1
    rw [collapse_arm1] at h
    cases hc : c2.collapseNoVersions with
    | error err => simp [hc] at h
    | ok c2' =>
      simp only [hc] at h
      cases hm : c2'.mergeNoVersions x s with
      | error err => simp [hm] at h
      | ok o =>
        cases o with
        | some t'' =>
          simp only [hm, Except.ok.injEq] at h
          subst h; exact merge_some_shape _ _ _ _ hm
        | none =>
          simp only [hm, Except.ok.injEq] at h
          subst h; rfl
  · have n1' : c1.isNoVersions = false := by simpa using n1
    by_cases n2 : c2.isNoVersions = true
    · obtain ⟨x, s, rfl⟩ := (cs_isNoVersions_iff c2).1 n2
      rw [collapse_arm2 _ _ _ _ _ n1'] at h
      cases hc : c1.collapseNoVersions with
      | error err => simp [hc] at h
      | ok c1' =>
        simp only [hc] at h
        cases hm : c1'.mergeNoVersions x s with
        | error err => simp [hm] at h
        | ok o =>
          cases o with
          | some t'' =>
            simp only [hm, Except.ok.injEq] at h
            subst h; exact merge_some_shape _ _ _ _ hm
          | none =>
            simp only [hm, Except.ok.injEq] at h
            subst h; rfl
    · have n2' : c2.isNoVersions = false := by simpa using n2
      rw [collapse_arm3 _ _ _ _ n1' n2'] at h
      cases hc1 : c1.collapseNoVersions with
      | error err => simp [hc1] at h
      | ok c1' =>
        cases hc2 : c2.collapseNoVersions with
        | error err => simp [hc1, hc2] at h
        | ok c2' =>
          simp only [hc1, hc2, Except.ok.injEq] at h
          subst h; rfl

omit [DecidableEq S] [LawfulVersionSet S V] in
/-- collapsing never produces a `NoVersions` leaf out of something else -/
theorem collapse_not_nv (c c' : DerivationTree P S V M) (hn : c.isNoVersions = false)
    (h : c.collapseNoVersions = .ok c') : c'.isNoVersions = false := by
  cases c with
  | external e => rw [collapse_ext] at h; cases h; exact hn
  | derived T sid c1 c2 =>
    have hsh := collapse_derived_shape T sid c1 c2 c' h
    cases c' with
    | external e => cases e <;> simp_all [DerivationTree.isDerivedOrDep, DerivationTree.isNoVersions]
    | derived => rfl

omit [DecidableEq S] [LawfulVersionSet S V] in
/-- collapsing never produces a `NotRoot` leaf out of something else -/
theorem collapse_notRoot (c : DerivationTree P S V M) (p : P) (v : V)
    (h : c.collapseNoVersions = .ok (.external (.notRoot p v))) : c = .external (.notRoot p v) := by
  cases c with
  | external e => rw [collapse_ext] at h; cases h; rfl
  | derived T sid c1 c2 =>
    have hsh := collapse_derived_shape T sid c1 c2 _ h
    simp [DerivationTree.isDerivedOrDep] at hsh

omit [DecidableEq S] [LawfulVersionSet S V] in
theorem cs_merge_ok (c : DerivationTree P S V M) (x : P) (s : S)
    (h : ∀ p v, c ≠ .external (.notRoot p v)) : ∃ o, c.mergeNoVersions x s = .ok o := by
  cases c with
  | external e =>
    cases e with
    | notRoot p v => exact absurd rfl (h p v)
    | noVersions => exact ⟨_, rfl⟩
    | custom => exact ⟨_, rfl⟩
    | fromDependencyOf p1 r1 p2 r2 =>
      simp only [DerivationTree.mergeNoVersions]
      split <;> exact ⟨_, rfl⟩
  | derived => exact ⟨_, rfl⟩

/-- the conclusion of `collapse_sound`, relative to the clause `T` the new tree has to imply -/
def CollapseGood (W : World P S V M) (root : P) (rv : V) (T : List (P × Term S)) (t' : DerivationTree P S V M) : Prop :=
  t'.Sound W.Exists ∧ t'.LeavesTrueExisting W root rv ∧
    Entails W.Exists [t'.terms] T ∧ t'.NoVersionsOnlyBesideLeaf ∧
    (∀ e ∈ t'.externals, e.SetsValid)

omit [DecidableEq P] [DecidableEq S] [LawfulVersionSet S V] in
theorem cs_entails_single_iff (U : P → V → Prop) (A B : List (P × Term S)) :
    Entails U [A] B ↔ ∀ σ, Within U σ → TermsTrue σ B → TermsTrue σ A := by
  simp [Entails]

theorem CollapseGood.weaken {W : World P S V M} {root : P} {rv : V} {T T' : List (P × Term S)}
    {t' : DerivationTree P S V M} (g : CollapseGood W root rv T t')
    (h : ∀ σ, Within W.Exists σ → TermsTrue σ T' → TermsTrue σ T) : CollapseGood W root rv T' t' := by
  obtain ⟨g1, g2, g3, g4, g5⟩ := g
  refine ⟨g1, g2, ?_, g4, g5⟩
  rw [cs_entails_single_iff] at g3 ⊢
  exact fun σ hw hT => g3 σ hw (h σ hw hT)

theorem cs_good_ext (W : World P S V M) (root : P) (rv : V) (e : External P S V M)
    (hl : e.TrueInExisting W root rv) (hv : e.SetsValid) :
    CollapseGood W root rv e.terms (.external e) := by
  refine ⟨.external e, ?_, ?_, trivial, ?_⟩
  · intro e' he'; simp [DerivationTree.externals] at he'; subst he'; exact hl
  · rw [cs_entails_single_iff]; exact fun σ _ h => h
  · intro e' he'; simp [DerivationTree.externals] at he'; subst he'; exact hv

theorem cs_good_derived (W : World P S V M) (root : P) (rv : V) (T : List (P × Term S)) (sid : Option Nat)
    (c1 c2 c1' c2' : DerivationTree P S V M)
    (hent : Entails W.Exists [c1.terms, c2.terms] T)
    (g1 : CollapseGood W root rv c1.terms c1') (g2 : CollapseGood W root rv c2.terms c2')
    (hn1 : c1'.isNoVersions = true → c2'.isNoVersionsOrCustom = true)
    (hn2 : c2'.isNoVersions = true → c1'.isNoVersionsOrCustom = true) :
    CollapseGood W root rv T (.derived T sid c1' c2') := by
  obtain ⟨a1, a2, a3, a4, a5⟩ := g1
  obtain ⟨b1, b2, b3, b4, b5⟩ := g2
  rw [cs_entails_single_iff] at a3 b3
  refine ⟨.derived _ _ _ _ a1 b1 ?_, ?_, ?_, ⟨hn1, hn2, a4, b4⟩, ?_⟩
  · intro σ hw hT
    obtain ⟨pr, hpr, htrue⟩ := hent σ hw hT
    simp only [List.mem_cons, List.not_mem_nil, or_false] at hpr
    rcases hpr with rfl | rfl
    · exact ⟨_, by simp, a3 σ hw htrue⟩
    · exact ⟨_, by simp, b3 σ hw htrue⟩
  · intro e he
    simp only [DerivationTree.externals, List.mem_append] at he
    exact he.elim (a2 e) (b2 e)
  · rw [cs_entails_single_iff]; exact fun σ _ h => h
  · intro e he
    simp only [DerivationTree.externals, List.mem_append] at he
    exact he.elim (a5 e) (b5 e)

/-- merging a true `NoVersions(x, s)` into the (collapsed) sibling keeps everything -/
theorem merge_some_good (W : World P S V M) (root : P) (rv : V) (T : List (P × Term S))
    (c' : DerivationTree P S V M) (x : P) (s : S) (t'' : DerivationTree P S V M)
    (hg : CollapseGood W root rv T c')
    (hnv : ∀ v ∈ W.versions x, contains s v = false) (hsv : LawfulVersionSet.Valid V s)
    (hx : ∀ p1 r1 p2 r2, c' = .external (.fromDependencyOf p1 r1 p2 r2) → x = p1 ∨ x = p2)
    (hm : c'.mergeNoVersions x s = .ok (some t'')) : CollapseGood W root rv T t'' := by
  cases c' with
  | derived =>
    simp [DerivationTree.mergeNoVersions] at hm
    subst hm; exact hg
  | external e =>
    cases e with
    | notRoot => simp [DerivationTree.mergeNoVersions] at hm
    | noVersions => simp [DerivationTree.mergeNoVersions] at hm
    | custom => simp [DerivationTree.mergeNoVersions] at hm
    | fromDependencyOf p1 r1 p2 r2 =>
      obtain ⟨-, g2, g3, -, g5⟩ := hg
      have hleaf : (External.fromDependencyOf p1 r1 p2 r2 : External P S V M).TrueInExisting W root rv :=
        g2 _ (by simp [DerivationTree.externals])
      have hval : LawfulVersionSet.Valid V r1 ∧ LawfulVersionSet.Valid V r2 :=
        g5 (External.fromDependencyOf p1 r1 p2 r2) (by simp [DerivationTree.externals])
      rw [cs_entails_single_iff] at g3
      simp only [DerivationTree.terms] at g3
      simp only [DerivationTree.mergeNoVersions] at hm
      by_cases hp : p1 = x
      · rw [if_pos hp] at hm
        simp only [Except.ok.injEq, Option.some.injEq] at hm
        subst hm
        have hval' : (External.fromDependencyOf p1 (union r1 s) p2 r2 : External P S V M).SetsValid :=
          ⟨LawfulVersionSet.valid_union _ _ hval.1 hsv, hval.2⟩
        have hleaf' : (External.fromDependencyOf p1 (union r1 s) p2 r2 : External P S V M).TrueInExisting
            W root rv := by
          intro w hw hc
          rw [LawfulVersionSet.contains_union _ _ _ hval.1 hsv, hnv w (hp ▸ hw), Bool.or_false] at hc
          exact hleaf w hw hc
        refine (cs_good_ext W root rv _ hleaf' hval').weaken ?_
        intro σ hw hT
        exact cs_dep_terms_left σ p1 r1 p2 r2 s hval.1 hval.2 hsv (g3 σ hw hT)
      · rw [if_neg hp] at hm
        simp only [Except.ok.injEq, Option.some.injEq] at hm
        subst hm
        have hx2 : x = p2 := (hx p1 r1 p2 r2 rfl).resolve_left (fun h => hp h.symm)
        subst hx2
        have hval' : (External.fromDependencyOf p1 r1 x (union r2 s) : External P S V M).SetsValid :=
          ⟨hval.1, LawfulVersionSet.valid_union _ _ hval.2 hsv⟩
        have hleaf' : (External.fromDependencyOf p1 r1 x (union r2 s) : External P S V M).TrueInExisting
            W root rv := by
          intro w hw hc
          obtain ⟨ds, t0, h1, h2, h3⟩ := hleaf w hw hc
          refine ⟨ds, t0, h1, h2, fun v hv => ?_⟩
          rw [h3 v hv, LawfulVersionSet.contains_union _ _ _ hval.2 hsv, hnv v hv, Bool.or_false]
        refine (cs_good_ext W root rv _ hleaf' hval').weaken ?_
        intro σ hw hT
        exact cs_dep_terms_right σ p1 r1 x r2 s (fun h => hp h.symm) hval.2 hsv
          (fun v hv => hnv v (hw x v hv)) (g3 σ hw hT)

/-- the side condition `collapse_sound` really needs (the one of `NoVersionsTouchesSibling`, but
about the *collapsed* sibling: a derived sibling may itself collapse to a dependency leaf): when the
sibling of a `NoVersions` leaf collapses to a dependency leaf, the `NoVersions` leaf is about one of
the two packages of that dependency -/
def DerivationTree.NoVersionsTouchesCollapsedSibling : DerivationTree P S V M → Prop
  | .external _ => True
  | .derived _ _ c1 c2 =>
      (∀ x s p1 r1 p2 r2, c1 = .external (.noVersions x s) →
        c2.collapseNoVersions = .ok (.external (.fromDependencyOf p1 r1 p2 r2)) → x = p1 ∨ x = p2) ∧
      (∀ x s p1 r1 p2 r2, c2 = .external (.noVersions x s) →
        c1.collapseNoVersions = .ok (.external (.fromDependencyOf p1 r1 p2 r2)) → x = p1 ∨ x = p2) ∧
      c1.NoVersionsTouchesCollapsedSibling ∧ c2.NoVersionsTouchesCollapsedSibling

omit [DecidableEq S] [LawfulVersionSet S V] in
/-- the strengthened side condition implies the one of the skeleton -/
theorem DerivationTree.NoVersionsTouchesCollapsedSibling.touchesSibling (t : DerivationTree P S V M)
    (h : t.NoVersionsTouchesCollapsedSibling) : t.NoVersionsTouchesSibling := by
  induction t with
  | external e => trivial
  | derived T sid c1 c2 ih1 ih2 =>
    obtain ⟨ha, hb, h1, h2⟩ := h
    refine ⟨?_, ?_, ih1 h1, ih2 h2⟩
    · intro x s p1 r1 p2 r2 e1 e2
      exact ha x s p1 r1 p2 r2 e1 (by rw [e2, collapse_ext])
    · intro x s p1 r1 p2 r2 e1 e2
      exact hb x s p1 r1 p2 r2 e1 (by rw [e2, collapse_ext])

/-- the general statement, by induction on the tree -/
theorem collapse_good (W : World P S V M) (root : P) (rv : V) (t : DerivationTree P S V M) :
    ∀ t' : DerivationTree P S V M, t.Sound W.Exists → t.LeavesTrueExisting W root rv →
      (∀ e ∈ t.externals, e.SetsValid) → t.NoVersionsTouchesCollapsedSibling →
      t.collapseNoVersions = .ok t' → CollapseGood W root rv t.terms t' := by
  induction t with
  | external e =>
    intro t' _ hl hv _ h
    rw [collapse_ext] at h
    cases h
    exact cs_good_ext W root rv e (hl e (by simp [DerivationTree.externals]))
      (hv e (by simp [DerivationTree.externals]))
  | derived T sid c1 c2 ih1 ih2 =>
    intro t' hs hl hv hp h
    obtain ⟨hpa, hpb, hp1, hp2⟩ := hp
    cases hs with
    | derived _ _ _ _ hs1 hs2 hent =>
    have hl1 : c1.LeavesTrueExisting W root rv := fun e he =>
      hl e (by simp only [DerivationTree.externals, List.mem_append]; exact Or.inl he)
    have hl2 : c2.LeavesTrueExisting W root rv := fun e he =>
      hl e (by simp only [DerivationTree.externals, List.mem_append]; exact Or.inr he)
    have hv1 : ∀ e ∈ c1.externals, e.SetsValid := fun e he =>
      hv e (by simp only [DerivationTree.externals, List.mem_append]; exact Or.inl he)
    have hv2 : ∀ e ∈ c2.externals, e.SetsValid := fun e he =>
      hv e (by simp only [DerivationTree.externals, List.mem_append]; exact Or.inr he)
    simp only [DerivationTree.terms]
    by_cases n1 : c1.isNoVersions = true
    · -- arm 1
      obtain ⟨x, s, rfl⟩ := (cs_isNoVersions_iff c1).1 n1
      have hnv : ∀ v ∈ W.versions x, contains s v = false :=
        hl1 (.noVersions x s) (by simp [DerivationTree.externals])
      have hsv : LawfulVersionSet.Valid V s := hv1 (.noVersions x s) (by simp [DerivationTree.externals])
      rw [collapse_arm1] at h
      cases hc : c2.collapseNoVersions with
      | error err => simp [hc] at h
      | ok c2' =>
        simp only [hc] at h
        have g2 := ih2 c2' hs2 hl2 hv2 hp2 hc
        cases hm : c2'.mergeNoVersions x s with
        | error err => simp [hm] at h
        | ok o =>
          cases o with
          | some t'' =>
            simp only [hm, Except.ok.injEq] at h
            subst h
            refine merge_some_good W root rv T c2' x s t'' (g2.weaken ?_) hnv hsv ?_ hm
            · intro σ hw hT
              obtain ⟨pr, hpr, htrue⟩ := hent σ hw hT
              simp only [List.mem_cons, List.not_mem_nil, or_false] at hpr
              rcases hpr with rfl | rfl
              · exact absurd htrue (cs_nv_not_true W x s hnv σ hw)
              · exact htrue
            · intro p1 r1 p2 r2 heq
              exact hpa x s p1 r1 p2 r2 rfl (heq ▸ hc)
          | none =>
            simp only [hm, Except.ok.injEq] at h
            subst h
            have hm' := cs_merge_none c2' x s hm
            exact cs_good_derived W root rv T sid _ c2 _ c2' hent
              (cs_good_ext W root rv _ hnv hsv) g2 (fun _ => hm'.1) (fun _ => rfl)
    · have n1' : c1.isNoVersions = false := by simpa using n1
      by_cases n2 : c2.isNoVersions = true
      · -- arm 2
        obtain ⟨x, s, rfl⟩ := (cs_isNoVersions_iff c2).1 n2
        have hnv : ∀ v ∈ W.versions x, contains s v = false :=
          hl2 (.noVersions x s) (by simp [DerivationTree.externals])
        have hsv : LawfulVersionSet.Valid V s := hv2 (.noVersions x s) (by simp [DerivationTree.externals])
        rw [collapse_arm2 _ _ _ _ _ n1'] at h
        cases hc : c1.collapseNoVersions with
        | error err => simp [hc] at h
        | ok c1' =>
          simp only [hc] at h
          have g1 := ih1 c1' hs1 hl1 hv1 hp1 hc
          cases hm : c1'.mergeNoVersions x s with
          | error err => simp [hm] at h
          | ok o =>
            cases o with
            | some t'' =>
              simp only [hm, Except.ok.injEq] at h
              subst h
              refine merge_some_good W root rv T c1' x s t'' (g1.weaken ?_) hnv hsv ?_ hm
              · intro σ hw hT
                obtain ⟨pr, hpr, htrue⟩ := hent σ hw hT
                simp only [List.mem_cons, List.not_mem_nil, or_false] at hpr
                rcases hpr with rfl | rfl
                · exact htrue
                · exact absurd htrue (cs_nv_not_true W x s hnv σ hw)
              · intro p1 r1 p2 r2 heq
                exact hpb x s p1 r1 p2 r2 rfl (heq ▸ hc)
            | none =>
              simp only [hm, Except.ok.injEq] at h
              subst h
              have hm' := cs_merge_none c1' x s hm
              exact cs_good_derived W root rv T sid c1 _ c1' _ hent g1
                (cs_good_ext W root rv _ hnv hsv) (fun _ => rfl) (fun _ => hm'.1)
      · -- arm 3
        have n2' : c2.isNoVersions = false := by simpa using n2
        rw [collapse_arm3 _ _ _ _ n1' n2'] at h
        cases hc1 : c1.collapseNoVersions with
        | error err => simp [hc1] at h
        | ok c1' =>
          cases hc2 : c2.collapseNoVersions with
          | error err => simp [hc1, hc2] at h
          | ok c2' =>
            simp only [hc1, hc2, Except.ok.injEq] at h
            subst h
            have g1 := ih1 c1' hs1 hl1 hv1 hp1 hc1
            have g2 := ih2 c2' hs2 hl2 hv2 hp2 hc2
            have m1 : c1'.isNoVersions = false := collapse_not_nv c1 c1' n1' hc1
            have m2 : c2'.isNoVersions = false := collapse_not_nv c2 c2' n2' hc2
            exact cs_good_derived W root rv T sid c1 c2 c1' c2' hent g1 g2
              (fun h => by rw [m1] at h; cases h) (fun h => by rw [m2] at h; cases h)

/-! ### a collapse-free sufficient condition: the tree is shaped like a chain of resolution steps -/

/-- every derived node looks like a resolution step (`priorCause`): both causes mention a common
package (the pivot), and every package of the node's clause is a package of one of the causes -/
def DerivationTree.ResolutionShaped : DerivationTree P S V M → Prop
  | .external _ => True
  | .derived terms _ c1 c2 =>
      (∃ pivot, pivot ∈ c1.terms.map Prod.fst ∧ pivot ∈ c2.terms.map Prod.fst ∧
        ∀ k ∈ terms.map Prod.fst, k ∈ c1.terms.map Prod.fst ∨ k ∈ c2.terms.map Prod.fst) ∧
      c1.ResolutionShaped ∧ c2.ResolutionShaped

omit [LawfulVersionSet S V] in
theorem cs_dep_keys (p1 : P) (r1 : S) (p2 : P) (r2 : S) (k : P)
    (h : k ∈ (External.fromDependencyOf p1 r1 p2 r2 : External P S V M).terms.map Prod.fst) :
    k = p1 ∨ k = p2 := by
  rw [cs_dep_terms] at h
  split at h
  · simp at h; exact Or.inl h
  · split at h
    · simp at h; exact Or.inl h
    · simpa using h

omit [DecidableEq S] [LawfulVersionSet S V] in
theorem merge_some_dep (c : DerivationTree P S V M) (x : P) (s : S) (p1 : P) (r1 : S) (p2 : P) (r2 : S)
    (h : c.mergeNoVersions x s = .ok (some (.external (.fromDependencyOf p1 r1 p2 r2)))) :
    ∃ r1' r2', c = .external (.fromDependencyOf p1 r1' p2 r2') := by
  cases c with
  | external e =>
    cases e <;> simp [DerivationTree.mergeNoVersions] at h
    split at h <;> simp at h <;> obtain ⟨rfl, -, rfl, -⟩ := h <;> exact ⟨_, _, rfl⟩
  | derived => simp [DerivationTree.mergeNoVersions] at h

omit [LawfulVersionSet S V] in
/-- a resolution-shaped tree that collapses to a dependency leaf only mentions, in its top clause,
the two packages of that leaf -/
theorem collapse_dep_keys (c : DerivationTree P S V M) :
    c.ResolutionShaped → ∀ p1 r1 p2 r2,
      c.collapseNoVersions = .ok (.external (.fromDependencyOf p1 r1 p2 r2)) →
      ∀ k ∈ c.terms.map Prod.fst, k = p1 ∨ k = p2 := by
  induction c with
  | external e =>
    intro _ p1 r1 p2 r2 h k hk
    rw [collapse_ext] at h
    cases h
    exact cs_dep_keys p1 r1 p2 r2 k hk
  | derived T sid c1 c2 ih1 ih2 =>
    intro hr p1 r1 p2 r2 h k hk
    obtain ⟨⟨y, hy1, hy2, hkeys⟩, hr1, hr2⟩ := hr
    simp only [DerivationTree.terms] at hk
    by_cases n1 : c1.isNoVersions = true
    · obtain ⟨x, s, rfl⟩ := (cs_isNoVersions_iff c1).1 n1
      rw [collapse_arm1] at h
      cases hc : c2.collapseNoVersions with
      | error err => simp [hc] at h
      | ok c2' =>
        simp only [hc] at h
        cases hm : c2'.mergeNoVersions x s with
        | error err => simp [hm] at h
        | ok o =>
          cases o with
          | some t'' =>
            simp only [hm, Except.ok.injEq] at h
            subst h
            obtain ⟨r1', r2', rfl⟩ := merge_some_dep _ _ _ _ _ _ _ hm
            have hsub := ih2 hr2 p1 r1' p2 r2' hc
            simp only [DerivationTree.terms, External.terms, List.map_cons, List.map_nil,
              List.mem_cons, List.not_mem_nil, or_false] at hy1 hkeys
            subst hy1
            rcases hkeys k hk with rfl | h2
            · exact hsub _ hy2
            · exact hsub k h2
          | none => simp [hm] at h
    · have n1' : c1.isNoVersions = false := by simpa using n1
      by_cases n2 : c2.isNoVersions = true
      · obtain ⟨x, s, rfl⟩ := (cs_isNoVersions_iff c2).1 n2
        rw [collapse_arm2 _ _ _ _ _ n1'] at h
        cases hc : c1.collapseNoVersions with
        | error err => simp [hc] at h
        | ok c1' =>
          simp only [hc] at h
          cases hm : c1'.mergeNoVersions x s with
          | error err => simp [hm] at h
          | ok o =>
            cases o with
            | some t'' =>
              simp only [hm, Except.ok.injEq] at h
              subst h
              obtain ⟨r1', r2', rfl⟩ := merge_some_dep _ _ _ _ _ _ _ hm
              have hsub := ih1 hr1 p1 r1' p2 r2' hc
              simp only [DerivationTree.terms, External.terms, List.map_cons, List.map_nil,
                List.mem_cons, List.not_mem_nil, or_false] at hy2 hkeys
              subst hy2
              rcases hkeys k hk with h1 | rfl
              · exact hsub k h1
              · exact hsub _ hy1
            | none => simp [hm] at h
      · have n2' : c2.isNoVersions = false := by simpa using n2
        rw [collapse_arm3 _ _ _ _ n1' n2'] at h
        cases hc1 : c1.collapseNoVersions with
        | error err => simp [hc1] at h
        | ok c1' =>
          cases hc2 : c2.collapseNoVersions with
          | error err => simp [hc1, hc2] at h
          | ok c2' => simp [hc1, hc2] at h

omit [LawfulVersionSet S V] in
/-- the collapse-free condition implies the side condition of `collapse_sound_partial` -/
theorem resolutionShaped_touches (t : DerivationTree P S V M) (h : t.ResolutionShaped) :
    t.NoVersionsTouchesCollapsedSibling := by
  induction t with
  | external e => trivial
  | derived T sid c1 c2 ih1 ih2 =>
    obtain ⟨⟨y, hy1, hy2, -⟩, hr1, hr2⟩ := h
    refine ⟨?_, ?_, ih1 hr1, ih2 hr2⟩
    · intro x s p1 r1 p2 r2 e1 hc
      subst e1
      simp only [DerivationTree.terms, External.terms, List.map_cons, List.map_nil,
        List.mem_cons, List.not_mem_nil, or_false] at hy1
      subst hy1
      exact collapse_dep_keys c2 hr2 p1 r1 p2 r2 hc _ hy2
    · intro x s p1 r1 p2 r2 e2 hc
      subst e2
      simp only [DerivationTree.terms, External.terms, List.map_cons, List.map_nil,
        List.mem_cons, List.not_mem_nil, or_false] at hy2
      subst hy2
      exact collapse_dep_keys c1 hr1 p1 r1 p2 r2 hc _ hy1

/-! ### the targets -/

set_option linter.unusedSectionVars false in
/-- a leaf true of the provider (C03) is true in the existing-versions reading -/
theorem External.trueInExisting_of_trueIn (W : World P S V M) (root : P) (rv : V)
    (e : External P S V M) (h : e.TrueIn W root rv) : e.TrueInExisting W root rv := by
  cases e with
  | notRoot p v => exact h
  | noVersions p s => exact h
  | fromDependencyOf p s q t =>
    intro w _ hc
    obtain ⟨ds, h1, h2⟩ := h w hc
    exact ⟨ds, t, h1, h2, fun _ _ => rfl⟩
  | custom p s m =>
    obtain ⟨v, rfl, hd⟩ := h
    intro w _ hc
    rw [(LawfulVersionSet.contains_singleton v w).1 hc]
    exact hd

/-
`collapse_sound` and `collapse_top_forbids_root` are FALSE as stated in the skeleton: the hypothesis
`NoVersionsTouchesSibling` only speaks about a sibling that *is* a dependency leaf, but a derived
sibling can itself collapse to a dependency leaf, into which the `NoVersions` set is then merged on
the dependency side whatever package it is about.

Counterexample (`P = V = Nat`, `S = Range Nat`, `M = Unit`; evaluated with `#eval`):
  packages 0 (root), 1, 2;  versions 0 ↦ [0], 1 ↦ [2], 2 ↦ [];  deps 0 0 = available [(1, {1})]; root = 0, rv = 0
  F  = external (fromDependencyOf 0 {0} 1 {1})
  c2 = derived [(0, pos {0})] none F (external (noVersions 1 {1}))
  t  = derived [(0, pos {0})] none (external (noVersions 2 {2})) c2
All hypotheses hold (`Sound` over `W.Exists`; the three leaves are true over the existing versions;
the sets are valid; `NoVersionsTouchesSibling` is vacuous at the top because `c2` is not a leaf, and
holds in `c2` with `x = p2 = 1`; `htop` holds since the top clause is `[(0, pos {0})]`).
`t.collapseNoVersions = ok (external (fromDependencyOf 0 {0} 1 {1, 2}))`:
  * that leaf is not `TrueInExisting` (the declared set `{1}` and `{1,2}` differ on the existing version 2 of package 1);
  * its clause `[(0, pos {0}), (1, neg {1,2})]` is false under `σ = {0 ↦ 0, 1 ↦ 2}`, which is within
    `W.Exists` and selects the root, so `Entails W.Exists [t'.terms] t.terms` and the conclusion of
    `collapse_top_forbids_root` fail.
What is true: the same statements under the extra hypothesis `hpc : t.NoVersionsTouchesCollapsedSibling`
(which implies `hp`), or under the collapse-free hypothesis `t.ResolutionShaped` instead of `hp`.
-/

/-- C09, main theorem (with the extra hypothesis `hpc`): after `collapse_no_versions` every remaining
leaf is true of the provider over the existing versions, every derived node is still entailed by its
causes over the existing versions, the new top clause is implied by the old one over the existing
versions (so it still forbids the root), and a `NoVersions` leaf survives only next to a
`NoVersions` / `Custom` leaf -/
theorem collapse_sound_partial (W : World P S V M) (root : P) (rv : V) (t : DerivationTree P S V M)
    (hs : t.Sound W.Exists) (hl : t.LeavesTrueExisting W root rv)
    (hv : ∀ e ∈ t.externals, e.SetsValid) (hp : t.NoVersionsTouchesSibling)
    (hpc : t.NoVersionsTouchesCollapsedSibling)
    (t' : DerivationTree P S V M) (h : t.collapseNoVersions = .ok t') :
    t'.Sound W.Exists ∧ t'.LeavesTrueExisting W root rv ∧
      Entails W.Exists [t'.terms] t.terms ∧ t'.NoVersionsOnlyBesideLeaf ∧
      (∀ e ∈ t'.externals, e.SetsValid) := by
  have _ := hp  -- implied by `hpc`, kept so that the statement is the skeleton's plus `hpc`
  exact collapse_good W root rv t t' hs hl hv hpc h

/-- the top still forbids the root over the existing versions (with the extra hypothesis `hpc`) -/
theorem collapse_top_forbids_root_partial (W : World P S V M) (root : P) (rv : V) (t : DerivationTree P S V M)
    (hs : t.Sound W.Exists) (hl : t.LeavesTrueExisting W root rv)
    (hv : ∀ e ∈ t.externals, e.SetsValid) (hp : t.NoVersionsTouchesSibling)
    (hpc : t.NoVersionsTouchesCollapsedSibling)
    (htop : ∀ σ : P → Option V, σ root = some rv → TermsTrue σ t.terms)
    (t' : DerivationTree P S V M) (h : t.collapseNoVersions = .ok t')
    (σ : P → Option V) (hw : Within W.Exists σ) (hσ : σ root = some rv) : TermsTrue σ t'.terms := by
  have g := (collapse_sound_partial W root rv t hs hl hv hp hpc t' h).2.2.1
  rw [cs_entails_single_iff] at g
  exact g σ hw (htop σ hσ)

/-- `collapse_sound` for trees shaped like chains of resolution steps -/
theorem collapse_sound_of_resolutionShaped (W : World P S V M) (root : P) (rv : V)
    (t : DerivationTree P S V M)
    (hs : t.Sound W.Exists) (hl : t.LeavesTrueExisting W root rv)
    (hv : ∀ e ∈ t.externals, e.SetsValid) (hr : t.ResolutionShaped)
    (t' : DerivationTree P S V M) (h : t.collapseNoVersions = .ok t') :
    t'.Sound W.Exists ∧ t'.LeavesTrueExisting W root rv ∧
      Entails W.Exists [t'.terms] t.terms ∧ t'.NoVersionsOnlyBesideLeaf ∧
      (∀ e ∈ t'.externals, e.SetsValid) :=
  collapse_good W root rv t t' hs hl hv (resolutionShaped_touches t hr) h

/-- `collapse_top_forbids_root` for trees shaped like chains of resolution steps -/
theorem collapse_top_forbids_root_of_resolutionShaped (W : World P S V M) (root : P) (rv : V)
    (t : DerivationTree P S V M)
    (hs : t.Sound W.Exists) (hl : t.LeavesTrueExisting W root rv)
    (hv : ∀ e ∈ t.externals, e.SetsValid) (hr : t.ResolutionShaped)
    (htop : ∀ σ : P → Option V, σ root = some rv → TermsTrue σ t.terms)
    (t' : DerivationTree P S V M) (h : t.collapseNoVersions = .ok t')
    (σ : P → Option V) (hw : Within W.Exists σ) (hσ : σ root = some rv) : TermsTrue σ t'.terms := by
  have g := (collapse_sound_of_resolutionShaped W root rv t hs hl hv hr t' h).2.2.1
  rw [cs_entails_single_iff] at g
  exact g σ hw (htop σ hσ)

set_option linter.unusedSectionVars false in
/-- a tree without `NoVersions` leaves is returned unchanged -/
theorem collapse_identity (t : DerivationTree P S V M)
    (h : ∀ e ∈ t.externals, ∀ p s, e ≠ .noVersions p s) : t.collapseNoVersions = .ok t := by
  induction t with
  | external e => exact collapse_ext e
  | derived T sid c1 c2 ih1 ih2 =>
    have h1 : ∀ e ∈ c1.externals, ∀ p s, e ≠ .noVersions p s := fun e he =>
      h e (by simp only [DerivationTree.externals, List.mem_append]; exact Or.inl he)
    have h2 : ∀ e ∈ c2.externals, ∀ p s, e ≠ .noVersions p s := fun e he =>
      h e (by simp only [DerivationTree.externals, List.mem_append]; exact Or.inr he)
    have n1 : c1.isNoVersions = false := by
      cases hn : c1.isNoVersions with
      | false => rfl
      | true =>
        obtain ⟨x, s, rfl⟩ := (cs_isNoVersions_iff c1).1 hn
        exact absurd rfl (h1 _ (by simp [DerivationTree.externals]) x s)
    have n2 : c2.isNoVersions = false := by
      cases hn : c2.isNoVersions with
      | false => rfl
      | true =>
        obtain ⟨x, s, rfl⟩ := (cs_isNoVersions_iff c2).1 hn
        exact absurd rfl (h2 _ (by simp [DerivationTree.externals]) x s)
    rw [collapse_arm3 _ _ _ _ n1 n2, ih1 h1, ih2 h2]

/-- the only panic: a `NoVersions` leaf next to a `NotRoot` leaf.  (That this never happens on a tree
produced by `resolve` needs a solver invariant and is not proved here.) -/
def DerivationTree.NoVersionsBesideNotRoot : DerivationTree P S V M → Prop
  | .external _ => False
  | .derived _ _ c1 c2 =>
      (c1.isNoVersions = true ∧ ∃ p v, c2 = .external (.notRoot p v)) ∨
      (c2.isNoVersions = true ∧ ∃ p v, c1 = .external (.notRoot p v)) ∨
      c1.NoVersionsBesideNotRoot ∨ c2.NoVersionsBesideNotRoot

set_option linter.unusedSectionVars false in
theorem collapse_no_panic_partial (t : DerivationTree P S V M) (h : ¬ t.NoVersionsBesideNotRoot) :
    ∃ t', t.collapseNoVersions = .ok t' := by
  induction t with
  | external e => exact ⟨_, collapse_ext e⟩
  | derived T sid c1 c2 ih1 ih2 =>
    simp only [DerivationTree.NoVersionsBesideNotRoot, not_or] at h
    obtain ⟨ha, hb, h1, h2⟩ := h
    obtain ⟨c1', hc1⟩ := ih1 h1
    obtain ⟨c2', hc2⟩ := ih2 h2
    by_cases n1 : c1.isNoVersions = true
    · obtain ⟨x, s, rfl⟩ := (cs_isNoVersions_iff c1).1 n1
      have hnr : ∀ p v, c2' ≠ .external (.notRoot p v) := by
        rintro p v rfl
        exact ha ⟨n1, p, v, collapse_notRoot c2 p v hc2⟩
      obtain ⟨o, hm⟩ := cs_merge_ok c2' x s hnr
      rw [collapse_arm1]
      simp only [hc2, hm]
      cases o <;> exact ⟨_, rfl⟩
    · have n1' : c1.isNoVersions = false := by simpa using n1
      by_cases n2 : c2.isNoVersions = true
      · obtain ⟨x, s, rfl⟩ := (cs_isNoVersions_iff c2).1 n2
        have hnr : ∀ p v, c1' ≠ .external (.notRoot p v) := by
          rintro p v rfl
          exact hb ⟨n2, p, v, collapse_notRoot c1 p v hc1⟩
        obtain ⟨o, hm⟩ := cs_merge_ok c1' x s hnr
        rw [collapse_arm2 _ _ _ _ _ n1']
        simp only [hc1, hm]
        cases o <;> exact ⟨_, rfl⟩
      · have n2' : c2.isNoVersions = false := by simpa using n2
        rw [collapse_arm3 _ _ _ _ n1' n2']
        simp only [hc1, hc2]
        exact ⟨_, rfl⟩

end Pubgrub

/-
Helpers for `PSInvariant.lean`, part 4: preservation of I-Q by the operations of the partial solution.
-/
import PubgrubProofs.PSInvariantAux3

set_option linter.unusedSectionVars false
set_option linter.unusedVariables false

namespace Pubgrub
open VersionSet

section PS
variable {P S V M Pr : Type} [DecidableEq P] [VersionSet S V] [DecidableEq S]
  [LawfulVersionSet S V]

/-- the obligation of I-Q for one package -/
def PartialSolution.POK (ps : PartialSolution P S V Pr) (p : P) : Prop :=
  ∀ (i : Nat) (pa : PackageAssignments S V) (s : S), ps.assignments[i]? = some (p, pa) →
    pa.inter = .derivations (.pos s) →
    (SmallMap.get ps.queue p).isSome = true ∨
    (ps.changed ≤ i ∧ (ps.changed = ps.currentDecisionLevel - 1 ∨ pa.highest = ps.currentDecisionLevel))

/-- every undecided package with a positive term, other than the one in flight, is queued -/
def PartialSolution.AllQ (ps : PartialSolution P S V Pr) (inflight : Option P) : Prop :=
  ∀ (i : Nat) (p : P) (pa : PackageAssignments S V) (s : S), ps.assignments[i]? = some (p, pa) →
    pa.inter = .derivations (.pos s) → some p ≠ inflight → (SmallMap.get ps.queue p).isSome = true

namespace PartialSolution

theorem AllQ.qInv {ps : PartialSolution P S V Pr} {o : Option P} (h : ps.AllQ o) : ps.QInv o :=
  fun i p pa s hi hs ho => Or.inl (h i p pa s hi hs ho)

theorem qInv_none_iff (ps : PartialSolution P S V Pr) (p : P) :
    ps.QInv none ↔ ps.QInv (some p) ∧ ps.POK p := by
  constructor
  · intro h
    exact ⟨fun i q qa s hi hs _ => h i q qa s hi hs (by simp), fun i pa s hi hs => h i p pa s hi hs (by simp)⟩
  · rintro ⟨h1, h2⟩ i q qa s hi hs _
    by_cases hq : q = p
    · subst hq; exact h2 i qa s hi hs
    · exact h1 i q qa s hi hs (by simpa using hq)

theorem QInv.weaken {ps : PartialSolution P S V Pr} (h : ps.QInv none) (o : Option P) : ps.QInv o :=
  fun i q qa s hi hs _ => h i q qa s hi hs (by simp)

theorem _root_.Pubgrub.Term.isPositive_pos_iff (t : Term S) : t.isPositive = true ↔ ∃ s, t = .pos s := by
  cases t <;> simp [Term.isPositive]

/-- `addDerivation` preserves I-Q -/
theorem addDerivation_qInv {ps ps' : PartialSolution P S V Pr} {p : P} {cause : Nat}
    {store : List (Incompat P S V M)} {o : Option P} (h : ps.WF') (hq : ps.QInv o)
    (hr : ps.addDerivation p cause store = .ok ps') : ps'.QInv o := by
  have hw := h.wf
  obtain ⟨inc, t, _, _, hcase⟩ := addDerivation_spec hr
  rcases hcase with ⟨idx, pa, t0, hidx, hpa, ht0, rfl⟩ | ⟨hpa, rfl⟩
  · have hget := getElem_of_indexOf_getPA hidx hpa
    have hlt := (List.getElem?_eq_some_iff.1 hget).1
    have hge : ps.currentDecisionLevel ≤ idx := undecided_ge hw hget ht0
    intro i q qa s hi hs hqo
    simp only [List.getElem?_set] at hi
    split at hi
    · rename_i hii; subst hii
      injection hi with hi; injection hi with hi1 hi2; subst hi1; subst hi2
      have hs' : t0.intersection t.negate = .pos s := by
        simp only at hs
        injection hs
      right
      refine ⟨?_, Or.inr rfl⟩
      simp only [hs', Term.isPositive, if_true]
      exact Nat.min_le_right _ _
    · rcases hq i q qa s hi hs hqo with h1 | ⟨h1, h2⟩
      · exact Or.inl h1
      · right
        simp only
        split
        · refine ⟨Nat.le_trans (Nat.min_le_left _ _) h1, ?_⟩
          rcases h2 with h2 | h2
          · left; rw [h2]; exact Nat.min_eq_left (by omega)
          · exact Or.inr h2
        · exact ⟨h1, h2⟩
  · intro i q qa s hi hs hqo
    simp only [List.getElem?_append] at hi
    split at hi
    · rcases hq i q qa s hi hs hqo with h1 | ⟨h1, h2⟩
      · exact Or.inl h1
      · right
        simp only
        split
        · refine ⟨Nat.le_trans (Nat.min_le_left _ _) h1, ?_⟩
          rcases h2 with h2 | h2
          · left; rw [h2]; have := hw.level_le; exact Nat.min_eq_left (by omega)
          · exact Or.inr h2
        · exact ⟨h1, h2⟩
    · rename_i hi'
      have hi'' : ps.assignments.length ≤ i := Nat.le_of_not_lt hi'
      cases hk : i - ps.assignments.length with
      | zero =>
        rw [hk] at hi
        simp only [List.getElem?_cons_zero] at hi
        injection hi with hi; injection hi with hi1 hi2; subst hi1; subst hi2
        have hs' : t.negate = .pos s := by
          simp only at hs
          injection hs
        right
        refine ⟨?_, Or.inr rfl⟩
        simp only [hs', Term.isPositive, if_true]
        exact Nat.le_trans (Nat.min_le_right _ _) (by omega)
      | succ k => rw [hk] at hi; simp at hi

/-- after `addDerivation p` on an undecided package with a positive term, the package is pending -/
theorem addDerivation_pok {ps ps' : PartialSolution P S V Pr} {p : P} {cause : Nat}
    {store : List (Incompat P S V M)} (h : ps.WF')
    {pa : PackageAssignments S V} {s : S} (hpa : ps.getPA p = some pa) (hs : pa.inter = .derivations (.pos s))
    (hr : ps.addDerivation p cause store = .ok ps') : ps'.POK p := by
  have hw := h.wf
  have hw' := (addDerivation_wf' h hr).wf
  obtain ⟨inc, t, _, _, hcase⟩ := addDerivation_spec hr
  rcases hcase with ⟨idx, pa0, t0, hidx, hpa0, ht0, rfl⟩ | ⟨hpa0, rfl⟩
  · rw [hpa] at hpa0; injection hpa0 with hpa0; subst hpa0
    rw [hs] at ht0; injection ht0 with ht0; subst ht0
    have hget := getElem_of_indexOf_getPA hidx hpa
    have hlt := (List.getElem?_eq_some_iff.1 hget).1
    obtain ⟨s', hs'⟩ := Term.intersection_pos s t.negate
    intro i qa s2 hi hs2
    have hii : i = idx := by
      have h1 : (ps.assignments.set idx (p, pa.pushDD ps.currentDecisionLevel ps.nextGlobalIndex cause
          ((Term.pos s).intersection t.negate)))[idx]? = some (p, pa.pushDD ps.currentDecisionLevel
            ps.nextGlobalIndex cause ((Term.pos s).intersection t.negate)) := by
        simp [hlt]
      exact (SmallMap.nodup_iff_index _).1 hw'.keys _ _ _ _ _ hi h1
    subst hii
    right
    simp only [hs', Term.isPositive, if_true]
    refine ⟨Nat.min_le_right _ _, Or.inr ?_⟩
    simp only [List.getElem?_set, hlt, if_true] at hi
    injection hi with hi; injection hi with _ hi; subst hi; rfl
  · rw [hpa] at hpa0; cases hpa0

/-- `backtrack` leaves everything pending -/
theorem backtrack_qInv {ps ps' : PartialSolution P S V Pr} {dl' : Nat} (h : ps.WF')
    (hdl : dl' ≤ ps.currentDecisionLevel) (hr : ps.backtrack dl' = .ok ps') : ps'.QInv none := by
  obtain ⟨hw', e1, e2, e3⟩ := backtrack_wf' h hdl hr
  intro i q qa s hi hs _
  right
  have := undecided_ge hw'.wf hi hs
  rw [e2, e1]
  exact ⟨by omega, Or.inl rfl⟩

/-! ### the pick -/

/-- what `toPrioritize` returns: undecided packages with a positive term -/
theorem toPrioritize_sound {ps : PartialSolution P S V Pr} (h : ps.WF) {L : List (P × S)}
    (hL : ps.toPrioritize = .ok L) (q : P) (hq : q ∈ L.map Prod.fst) :
    ∃ pa s, ps.getPA q = some pa ∧ pa.inter = .derivations (.pos s) := by
  unfold toPrioritize at hL
  split at hL
  · cases hL
  injection hL with hL; subst hL
  rw [List.mem_map] at hq
  obtain ⟨⟨q', s⟩, hm, rfl⟩ := hq
  rw [List.mem_filterMap] at hm
  obtain ⟨⟨q0, qa⟩, hx, hf⟩ := hm
  simp only at hf
  split at hf
  · unfold potentialPackageFilter at hf
    split at hf
    · cases hf
    · rename_i t ht
      split at hf
      · rename_i s0
        injection hf with hf; injection hf with hf1 hf2; subst hf1; subst hf2
        exact ⟨qa, s0, SmallMap.get_of_mem h.keys (List.mem_of_mem_drop hx), ht⟩
      · cases hf
  · cases hf

/-- what `toPrioritize` returns: all pending packages -/
theorem toPrioritize_complete {ps : PartialSolution P S V Pr} {L : List (P × S)}
    (hL : ps.toPrioritize = .ok L) {i : Nat} {q : P} {qa : PackageAssignments S V} {s : S}
    (hi : ps.assignments[i]? = some (q, qa)) (hs : qa.inter = .derivations (.pos s))
    (h1 : ps.changed ≤ i)
    (h2 : ps.changed = ps.currentDecisionLevel - 1 ∨ qa.highest = ps.currentDecisionLevel) :
    q ∈ L.map Prod.fst := by
  unfold toPrioritize at hL
  split at hL
  · cases hL
  injection hL with hL; subst hL
  rw [List.mem_map]
  refine ⟨(q, s), ?_, rfl⟩
  rw [List.mem_filterMap]
  refine ⟨(q, qa), ?_, ?_⟩
  · apply List.mem_of_getElem? (i := i - ps.changed)
    rw [List.getElem?_drop, Nat.add_sub_cancel' h1]; exact hi
  · simp only
    rw [if_pos]
    · simp only [potentialPackageFilter, hs]
    · rcases h2 with h2 | h2
      · simp [h2]
      · simp [h2]

/-- after the prioritisation every undecided package with a positive term is queued -/
theorem afterPrioritize_allQ {ps : PartialSolution P S V Pr} (hq : ps.QInv none) {L : List (P × S)}
    (hL : ps.toPrioritize = .ok L) (prios : List (P × Pr)) (hk : L.map Prod.fst = prios.map Prod.fst) :
    (ps.afterPrioritize prios).AllQ none := by
  intro i q qa s hi hs _
  show (SmallMap.get (prios.foldl (fun q kv => queuePush q kv.1 kv.2) ps.queue) q).isSome = true
  rw [get_foldl_push]
  rcases hq i q qa s hi hs (by simp) with h1 | ⟨h1, h2⟩
  · exact Or.inl h1
  · right; rw [← hk]; exact toPrioritize_complete hL hi hs h1 h2

theorem queueRemove_allQ {ps : PartialSolution P S V Pr} (hq : ps.AllQ none) (p : P) :
    ({ ps with queue := SmallMap.remove ps.queue p } : PartialSolution P S V Pr).AllQ (some p) := by
  intro i q qa s hi hs hqp
  show (SmallMap.get (SmallMap.remove ps.queue p) q).isSome = true
  have hne : q ≠ p := by intro e; subst e; exact hqp rfl
  rw [SmallMap.get_remove_ne _ _ _ hne]
  exact hq i q qa s hi hs (by simp)

/-- after the decision for the package in flight, every undecided package with a positive term is
still queued -/
theorem addDecision_allQ {ps ps' : PartialSolution P S V Pr} {debug : Bool} {p : P} {v : V}
    (h : ps.WF) (hq : ps.AllQ (some p)) (hr : addDecision debug ps p v = .ok ps')
    {t : Term S} {pa : PackageAssignments S V} (hpa : ps.getPA p = some pa) (ht : pa.inter = .derivations t) :
    ps'.AllQ none := by
  obtain ⟨oldIdx, hget, hge, e1, e2, e3, e4, e5, hk⟩ := addDecision_spec h hr hpa ht
  intro k q qa s hkq hs _
  rw [e3]
  rw [hk] at hkq
  split at hkq
  · injection hkq with hkq; injection hkq with h1 h2
    subst h2
    simp only [PackageAssignments.decide] at hs
    cases hs
  · rename_i hk1
    split at hkq
    · rename_i hk2
      have hqp : q ≠ p := by
        intro e; subst e
        have := (SmallMap.nodup_iff_index _).1 h.keys _ _ _ _ _ hkq hget
        omega
      exact hq _ q qa s hkq hs (by simpa using hqp)
    · rename_i hk2
      have hqp : q ≠ p := by
        intro e; subst e
        have := (SmallMap.nodup_iff_index _).1 h.keys _ _ _ _ _ hkq hget
        omega
      exact hq _ q qa s hkq hs (by simpa using hqp)

end PartialSolution
end PS
end Pubgrub

/-
Helpers for `NonEmpty.lean`, part 2: the functions of the partial solution keep every term inhabited;
the satisfier found by the satisfier search is the *first* assignment that satisfies the term.
-/
import PubgrubProofs.NonEmptyAux1

set_option linter.unusedSectionVars false
set_option linter.unusedVariables false

namespace Pubgrub
open VersionSet

section
variable {P S V M Pr : Type} [DecidableEq P] [VersionSet S V] [DecidableEq S] [LawfulVersionSet S V]

namespace PartialSolution

theorem ne_empty : (PartialSolution.empty : PartialSolution P S V Pr).NE := by
  intro p pa h; simp [PartialSolution.empty] at h

theorem ne_set {l : List (P × PackageAssignments S V)}
    (h : ∀ p pa, (p, pa) ∈ l → Term.Inh (V := V) pa.inter.term ∧ ∀ dd ∈ pa.dated, Term.Inh (V := V) dd.accumulated)
    (i : Nat) (x : P × PackageAssignments S V)
    (hx : Term.Inh (V := V) x.2.inter.term ∧ ∀ dd ∈ x.2.dated, Term.Inh (V := V) dd.accumulated) :
    ∀ p pa, (p, pa) ∈ l.set i x →
      Term.Inh (V := V) pa.inter.term ∧ ∀ dd ∈ pa.dated, Term.Inh (V := V) dd.accumulated := by
  intro p pa hkv
  rcases List.mem_or_eq_of_mem_set hkv with h' | h'
  · exact h p pa h'
  · subst h'; exact hx

theorem ne_swap {l l' : List (P × PackageAssignments S V)}
    (h : ∀ p pa, (p, pa) ∈ l → Term.Inh (V := V) pa.inter.term ∧ ∀ dd ∈ pa.dated, Term.Inh (V := V) dd.accumulated)
    (i j : Nat) (hs : swapIndices l i j = .ok l') :
    ∀ p pa, (p, pa) ∈ l' →
      Term.Inh (V := V) pa.inter.term ∧ ∀ dd ∈ pa.dated, Term.Inh (V := V) dd.accumulated := by
  unfold swapIndices at hs
  split at hs
  · rename_i a b ha hb
    injection hs with hs; subst hs
    have ha' := List.mem_of_getElem? ha
    have hb' := List.mem_of_getElem? hb
    exact ne_set (ne_set h i b (h b.1 b.2 hb')) j a (h a.1 a.2 ha')
  · cases hs

/-- a derivation keeps the terms inhabited if the new term is -/
theorem addDerivation_ne {ps ps' : PartialSolution P S V Pr} {p : P} {cause : Nat}
    {store : List (Incompat P S V M)} (h : ps.NE) (hr : ps.addDerivation p cause store = .ok ps')
    (hnew : ∀ inc t, store[cause]? = some inc → inc.get p = some t →
      (∀ pa, ps.getPA p = some pa → Term.Inh (V := V) (pa.inter.term.intersection t.negate)) ∧
      (ps.getPA p = none → Term.Inh (V := V) t.negate)) : ps'.NE := by
  obtain ⟨inc, t, hinc, ht, hcase⟩ := addDerivation_spec hr
  obtain ⟨h1, h2⟩ := hnew inc t hinc ht
  rcases hcase with ⟨idx, pa, t0, hidx, hpa, ht0, rfl⟩ | ⟨hpa, rfl⟩
  · have hold := h p pa (SmallMap.mem_of_get hpa)
    have hn := h1 pa hpa
    rw [ht0] at hn
    simp only [AssignInter.term] at hn
    apply ne_set h
    refine ⟨hn, ?_⟩
    intro dd hdd
    simp only [List.mem_append, List.mem_singleton] at hdd
    rcases hdd with hdd | rfl
    · exact hold.2 dd hdd
    · exact hn
  · intro q qa hkv
    simp only [List.mem_append, List.mem_singleton] at hkv
    rcases hkv with hkv | hkv
    · exact h q qa hkv
    · injection hkv with _ e; subst e
      refine ⟨h2 hpa, ?_⟩
      intro dd hdd
      simp only [List.mem_singleton] at hdd
      subst hdd; exact h2 hpa

theorem addDecision_ne {ps ps' : PartialSolution P S V Pr} {debug : Bool} {p : P} {v : V}
    (h : ps.NE) (hr : addDecision debug ps p v = .ok ps') : ps'.NE := by
  replace hr := addDecision_core hr
  unfold addDecisionCore at hr
  simp only [bind, Except.bind, pure, Except.pure] at hr
  split at hr
  · cases hr
  rename_i oldIdx hold
  split at hr
  · cases hr
  rename_i pa hpa
  have hpav := h p pa (SmallMap.mem_of_get (unwrapOr_ok hpa))
  have hset := ne_set h oldIdx
      (p, { pa with highest := ps.currentDecisionLevel + 1,
                    inter := .decision ps.nextGlobalIndex v (Term.exact v) })
      ⟨Term.inh_exact v, hpav.2⟩
  split at hr
  · split at hr
    · cases hr
    rename_i asg hasg
    injection hr with hr; subst hr
    exact ne_swap hset _ _ hasg
  · injection hr with hr; subst hr; exact hset

theorem addVersion_ne {ps ps' : PartialSolution P S V Pr} {debug : Bool} {p : P} {v : V}
    {news : List (Incompat P S V M)}
    (h : ps.NE) (hr : addVersion debug ps p v news = .ok ps') : ps'.NE := by
  unfold addVersion at hr
  split at hr
  · exact addDecision_ne h hr
  · simp only at hr
    split at hr
    · exact addDecision_ne h hr
    · injection hr with hr; subst hr; exact h

end PartialSolution

/-- a backtrack keeps the terms inhabited: it only restores earlier accumulated terms -/
theorem BtStep.ne {ps ps' : PartialSolution P S V Pr} {dl : Nat} (hbt : BtStep ps ps' dl) (hw : ps.WF')
    (h : ps.NE) : ps'.NE := by
  intro q qa' hq
  obtain ⟨qa, hm, hg⟩ := hbt.mem hq
  have hold := h q qa hm
  rcases (PartialSolution.btG_eq_some (hw.wfx _ hm) hg).2 with ⟨_, e⟩ | ⟨_, _, last, hl, e⟩
  · simp only at e; subst e; exact hold
  · simp only at e; subst e
    have hsub : ∀ dd ∈ PartialSolution.popWhileAbove dl qa.dated, dd ∈ qa.dated :=
      fun dd hdd => PartialSolution.mem_popWhileAbove dl _ dd hdd
    have hlm := List.mem_of_getLast? hl
    exact ⟨hold.2 last (hsub last hlm), fun dd hdd => hold.2 dd (hsub dd hdd)⟩

/-! ### the satisfier is the first assignment satisfying the term -/

namespace PartialSolution

/-- `satisfier` returns the first derivation disjoint from the start term: every derivation of a lower
decision level is not disjoint from it -/
theorem satisfier_first {pa : PackageAssignments S V} {start : Term S} {r : Option Nat × Nat × Nat}
    (h : satisfier pa start = .ok r) (hl : (pa.dated.map (·.decisionLevel)).Pairwise (· ≤ ·)) :
    ∀ dd ∈ pa.dated, dd.decisionLevel < r.2.2 → dd.accumulated.isDisjoint start = false := by
  unfold satisfier at h
  split at h
  · rename_i dd0 hdd0
    injection h with h; subst h
    simp only
    obtain ⟨_, as, bs, hsplit, hbefore⟩ := List.find?_eq_some_iff_append.1 hdd0
    intro dd hdd hlt
    rw [hsplit] at hdd hl
    rw [List.pairwise_map, List.pairwise_append] at hl
    obtain ⟨_, hl2, _⟩ := hl
    rw [List.pairwise_cons] at hl2
    rcases List.mem_append.1 hdd with h1 | h1
    · have := hbefore dd h1
      simpa using this
    · rcases List.mem_cons.1 h1 with e | e
      · subst e; omega
      · have := hl2.1 dd e
        omega
  · rename_i hnone
    intro dd hdd _
    have := List.find?_eq_none.1 hnone dd hdd
    simpa using this

theorem findSatisfier_go_exact (ps : PartialSolution P S V Pr) (all : List (P × Term S)) :
    ∀ (terms : List (P × Term S)) (acc m : SmallMap P (Option Nat × Nat × Nat)),
    terms.foldlM (m := R) (fun acc (pt : P × Term S) => do
        let pa ← unwrapOr (ps.getPA pt.1) "find_satisfier: Must exist"
        let s ← satisfier pa pt.2.negate
        pure (SmallMap.insert acc pt.1 s)) acc = .ok m →
    (∀ q t, (q, t) ∈ terms → (q, t) ∈ all) →
    (∀ q s, (q, s) ∈ acc → ∃ t pa, (q, t) ∈ all ∧ ps.getPA q = some pa ∧ satisfier pa t.negate = .ok s) →
    ∀ q s, (q, s) ∈ m → ∃ t pa, (q, t) ∈ all ∧ ps.getPA q = some pa ∧ satisfier pa t.negate = .ok s := by
  intro terms
  induction terms with
  | nil =>
    intro acc m hr _ hacc
    simp only [List.foldlM_nil, pure, Except.pure] at hr
    injection hr with hr; subst hr; exact hacc
  | cons pt rest ih =>
    intro acc m hr hall hacc
    obtain ⟨q0, t0⟩ := pt
    simp only [List.foldlM_cons, bind, Except.bind, pure, Except.pure] at hr
    split at hr
    · cases hr
    rename_i acc1 h1
    split at h1
    · cases h1
    rename_i pa0 hpa0
    split at h1
    · cases h1
    rename_i s0 hs0
    injection h1 with h1; subst h1
    refine ih _ m hr (fun q t hm => hall q t (List.mem_cons_of_mem _ hm)) ?_
    intro q s hm
    rcases SmallMap.mem_insert_sub hm with e | e
    · injection e with e1 e2; subst e1; subst e2
      exact ⟨t0, pa0, hall _ _ List.mem_cons_self, unwrapOr_ok hpa0, hs0⟩
    · exact hacc q s e

/-- when the satisfier search asks for a backtrack to `prev`, every derivation of the satisfier
package at a level that survives the backtrack does not yet satisfy the term of the package -/
theorem satisfierSearch_first {ps : PartialSolution P S V Pr} {inc : Incompat P S V M}
    {store : List (Incompat P S V M)} {sp : P} {prev : Nat} (hw : ps.WF)
    (hn : SmallMap.NoDupKeys inc.terms)
    (h : ps.satisfierSearch inc store = .ok (sp, .differentDecisionLevels prev)) :
    ∃ t pa, inc.get sp = some t ∧ ps.getPA sp = some pa ∧
      ∀ dd ∈ pa.dated, dd.decisionLevel ≤ prev → dd.accumulated.isDisjoint t.negate = false := by
  rw [satisfierSearch_eq] at h
  simp only [bind, Except.bind, pure, Except.pure] at h
  split at h
  · cases h
  rename_i m hm
  split at h
  · cases h
  rename_i y hy
  split at h
  · cases h
  rename_i prev' hprev
  split at h
  · split at h
    · cases h
    · injection h with h; injection h with _ h; cases h
  rename_i hlt
  injection h with h; injection h with e1 e2
  injection e2 with e2; subst e2
  obtain ⟨sp', sc, sg, sl⟩ := y
  simp only at e1 hlt; subst e1
  have hymem := maxByIndex_mem m _ (unwrapOr_ok hy)
  unfold findSatisfier at hm
  obtain ⟨t, pa, ht, hpa, hsat⟩ := findSatisfier_go_exact ps inc.terms inc.terms [] m hm (fun _ _ x => x)
    (by intro q s hx; cases hx) _ _ hymem
  refine ⟨t, pa, SmallMap.get_of_mem hn ht, hpa, ?_⟩
  obtain ⟨i, _, hi⟩ := getElem_of_getPA hpa
  intro dd hdd hle
  have := satisfier_first hsat (hw.entries i _ pa hi).levels dd hdd
  simp only at this
  exact this (by omega)

end PartialSolution

/-- after the backtrack asked for by the satisfier search, what is left of the satisfier package
does not satisfy its term of the incompatibility -/
theorem BtStep.not_imp {ps ps' : PartialSolution P S V Pr} {prev : Nat} (hbt : BtStep ps ps' prev)
    (hw : ps.WF') (hv : ps.TermsValid) {sp : P} {pa : PackageAssignments S V} {t : Term S} (htv : t.Valid)
    (hpa : ps.getPA sp = some pa) (hlt : prev < pa.highest)
    (hfirst : ∀ dd ∈ pa.dated, dd.decisionLevel ≤ prev → dd.accumulated.isDisjoint t.negate = false) :
    ∀ pa', ps'.getPA sp = some pa' → ¬ pa'.inter.term.Imp t := by
  intro pa' hpa'
  obtain ⟨pa0, k1, k2⟩ := hbt.getPA_inv hw.wf hpa'
  rw [hpa] at k1; injection k1 with k1; subst k1
  have hm := SmallMap.mem_of_get hpa
  rcases (PartialSolution.btG_eq_some (hw.wfx _ hm) k2).2 with ⟨k3, _⟩ | ⟨_, _, last, hl, k3⟩
  · simp only at k3; omega
  · simp only at k3; subst k3
    have hlm : last ∈ pa.dated := PartialSolution.mem_popWhileAbove prev _ _ (List.mem_of_getLast? hl)
    have hle := PartialSolution.popWhileAbove_last prev _ _ hl
    have hd := hfirst last hlm hle
    intro himp
    have himp' : last.accumulated.Imp t := himp
    have := Term.disjoint_negate_of_imp ((hv _ hm).dated last hlm) htv himp'
    rw [hd] at this; cases this

end
end Pubgrub

/-
Property C14 — The next decision is always for a package of maximal reported priority.

"Each time the solver asks the provider to choose a version, the package it asks about is, among all
packages that currently have a positive requirement and no selected version, one whose most recently
reported priority is maximal, and every such package's most recent priority was reported for its
current set of allowed versions."

Proved (every world, every answer sequence consistent with it, any tie-breaking, any lawful version
set): no package with a positive requirement is ever lost (I-Q, `C14_none_lost`); when the queue is
popped every undecided package with a positive term is in the queue (`C14_pick_sees_all`); the package
`choose_version` is asked about has a queued priority that is maximal among ALL of them
(`C14_choose_is_maximal`).  The model's queue is a map package ↦ last pushed priority and `pop` is "a
maximum, whichever the heap returns" (an input of the model), so this covers every tie-breaking.
`C14_full` is the property as stated, on the callback trace: whenever `choose_version(p, ·)` is
requested, every package q with a positive requirement and no selected version had its most recent
priority reported for exactly its current set, and that priority is at most p's most recent one.
-/
import PubgrubProofs.PSInvariant
import PubgrubProofs.Freshness
import PubgrubProofs.RangeAnyOrder2
import PubgrubProofs.Examples

namespace Pubgrub.C14
open Pubgrub

variable {P S V M Pr E : Type} [DecidableEq P] [VersionSet S V] [DecidableEq S] [DecidableEq V]
  [LE Pr] [DecidableLE Pr] [LawfulVersionSet S V]

/-- no package with a positive requirement is lost: in every reachable unfinished state each undecided
package with a positive term (other than the one just popped) is queued or will be re-prioritised at
the next pick -/
theorem C14_none_lost (W : World P S V M) (hW : W.SetsValid) (debug : Bool) (fuel : Nat)
    (root : P) (rv : V) (x : SolverState P S V M Pr × Request P S V M Pr E)
    (h : Reachable W debug fuel root rv x) (hph : x.2.isFinal = false) :
    x.1.st.ps.QInv x.1.inflight := reachable_qInv W hW debug fuel root rv x h hph

theorem C14_pick_sees_all (W : World P S V M) (hW : W.SetsValid) (debug : Bool) (fuel : Nat)
    (root : P) (rv : V) (s : SolverState P S V M Pr) (q : List (P × Pr))
    (h : Reachable (E := E) W debug fuel root rv (s, .pick q))
    (p : P) (pa : PackageAssignments S V) (set : S)
    (hp : s.st.ps.getPA p = some pa) (hpos : pa.inter = .derivations (.pos set)) :
    (SmallMap.get q p).isSome = true := pick_sees_all W hW debug fuel root rv s q h p pa set hp hpos

theorem C14_choose_is_maximal (W : World P S V M) (hW : W.SetsValid) (debug : Bool) (fuel : Nat)
    (root : P) (rv : V) (s : SolverState P S V M Pr) (q : List (P × Pr)) (p : P)
    (h : Reachable (E := E) W debug fuel root rv (s, .pick q))
    (set : S) (s' : SolverState P S V M Pr)
    (hstep : Solver.step (E := E) s (.picked (some p)) = (s', .chooseVersion p set)) :
    ∃ pr, SmallMap.get q p = some pr ∧
      ∀ p' pa' set', s.st.ps.getPA p' = some pa' → pa'.inter = .derivations (.pos set') →
        ∃ pr', SmallMap.get q p' = some pr' ∧ pr' ≤ pr :=
  choose_is_maximal W hW debug fuel root rv s q p h set s' hstep

/-- C14 -/
theorem C14_full (W : World P S V M) (hW : W.SetsValid) (debug : Bool)
    (fuel : Nat) (root : P) (rv : V) (as : List (Answer P S V M Pr E))
    (hok : AnswersOK W debug fuel root rv as) (k : Nat) (p : P) (s : S)
    (hk : (Solver.trace debug fuel root rv as)[k + 1]? = some (.chooseVersion p s))
    (q : P) (pa : PackageAssignments S V) (setq : S)
    (hq : (Solver.after (Solver.start debug fuel root rv) (as.take k)).1.st.ps.getPA q = some pa)
    (hpos : pa.inter = .derivations (.pos setq)) :
    ∃ prq prp, lastPrio (Solver.trace debug fuel root rv as) as k q = some (setq, prq) ∧
      (∃ sp, lastPrio (Solver.trace debug fuel root rv as) as k p = some (sp, prp)) ∧ prq ≤ prp :=
  choose_has_maximal_last_priority W hW debug fuel root rv as hok k p s hk q pa setq hq hpos

/-! ### `Range V` over ANY linear order (second batch of pull-backs, RangeAnyOrder2) -/
section AnyOrder2
variable {P V M Pr E : Type} [DecidableEq P] [LinearOrder V] [LE Pr] [DecidableLE Pr]

theorem C14_range_pick_sees_all (W : World P (Range V) V M) (hW : W.RangesWF) (debug : Bool) (fuel : Nat)
    (root : P) (rv : V) (s : SolverState P (Range V) V M Pr) (q : List (P × Pr))
    (h : Reachable (E := E) W debug fuel root rv (s, .pick q))
    (p : P) (pa : PackageAssignments (Range V) V) (set : (Range V))
    (hp : s.st.ps.getPA p = some pa) (hpos : pa.inter = .derivations (.pos set)) :
    (SmallMap.get q p).isSome = true :=
  by apply range_C14_pick_sees_all (P := P) (V := V) (M := M) (Pr := Pr) (E := E) <;> assumption

theorem C14_range_choose_is_maximal (W : World P (Range V) V M) (hW : W.RangesWF) (debug : Bool) (fuel : Nat)
    (root : P) (rv : V) (s : SolverState P (Range V) V M Pr) (q : List (P × Pr)) (p : P)
    (h : Reachable (E := E) W debug fuel root rv (s, .pick q))
    (set : (Range V)) (s' : SolverState P (Range V) V M Pr)
    (hstep : Solver.step (E := E) s (.picked (some p)) = (s', .chooseVersion p set)) :
    ∃ pr, SmallMap.get q p = some pr ∧
      ∀ p' pa' set', s.st.ps.getPA p' = some pa' → pa'.inter = .derivations (.pos set') →
        ∃ pr', SmallMap.get q p' = some pr' ∧ pr' ≤ pr :=
  by apply range_C14_choose_is_maximal (P := P) (V := V) (M := M) (Pr := Pr) (E := E) <;> assumption

theorem C14_range_full (W : World P (Range V) V M) (hW : W.RangesWF) (debug : Bool)
    (fuel : Nat) (root : P) (rv : V) (as : List (Answer P (Range V) V M Pr E))
    (hok : AnswersOK W debug fuel root rv as) (k : Nat) (p : P) (s : (Range V))
    (hk : (Solver.trace debug fuel root rv as)[k + 1]? = some (.chooseVersion p s))
    (q : P) (pa : PackageAssignments (Range V) V) (setq : (Range V))
    (hq : (Solver.after (Solver.start debug fuel root rv) (as.take k)).1.st.ps.getPA q = some pa)
    (hpos : pa.inter = .derivations (.pos setq)) :
    ∃ prq prp, lastPrio (Solver.trace debug fuel root rv as) as k q = some (setq, prq) ∧
      (∃ sp, lastPrio (Solver.trace debug fuel root rv as) as k p = some (sp, prp)) ∧ prq ≤ prp :=
  by apply range_C14_full (P := P) (V := V) (M := M) (Pr := Pr) (E := E) <;> assumption

end AnyOrder2

/-! Non-vacuity on concrete runs (PubgrubProofs/Examples.lean, evaluated by `decide +kernel`; registered in
obligations.json so that their axioms are audited too): `Examples.example_C_qInv`. -/

end Pubgrub.C14

import PubgrubProofs.Defs
import PubgrubProofs.RangeSet
import PubgrubProofs.RangeRel
import PubgrubProofs.RangeOrd
import PubgrubProofs.TermLaws
import PubgrubProofs.RangeQuery

/-
Invariants behind property C01 (a returned solution satisfies every dependency): definitions only.
All of them were evaluated as executable checks (PubgrubModel/Diag.lean: checkOwn, checkCache,
checkIndexComplete) at every pick / exit point of 12 000 mirrored runs before being stated here.
-/
import PubgrubProofs.PSDefs
import PubgrubProofs.StoreDefs

namespace Pubgrub
open VersionSet

section
variable {P S V M Pr : Type} [DecidableEq P] [VersionSet S V] [DecidableEq S]

/-- an external incompatibility created while `p` was the package being decided: a dependency of a
version of `p`, "no versions of p in …", "dependencies of p … unavailable" -/
def Incompat.OwnedBy (i : Incompat P S V M) (p : P) : Prop :=
  match i.kind with
  | .fromDependencyOf q _ _ _ => q = p
  | .noVersions q _ => q = p
  | .custom q _ _ => q = p
  | _ => False

/-- the ids listed in the index under a package -/
def State.indexOf (st : State P S V M Pr) (p : P) : List Nat :=
  (SmallMap.get st.incompatibilities p).getD []

/-- Inv-Own: the incompatibilities owned by a decided package are contradicted by the partial solution
restricted to any level from the package's decision level up (`backtrack l` is the restriction to the
assignments of level ≤ l) -/
def State.OwnInv (st : State P S V M Pr) : Prop :=
  ∀ (i : Nat) (p : P) (pa : PackageAssignments S V), st.ps.assignments[i]? = some (p, pa) →
    i < st.ps.currentDecisionLevel →
    ∀ l, i + 1 ≤ l → l ≤ st.ps.currentDecisionLevel →
    ∀ psl, st.ps.backtrack l = .ok psl →
    ∀ id ∈ st.indexOf p, ∀ inc : Incompat P S V M, st.store[id]? = some inc → inc.OwnedBy p →
      ∃ q, psl.relation inc = .contradicted q

/-- the `contradicted_incompatibilities` cache is sound: a cached `(id, l)` is contradicted by the
assignments of level ≤ l -/
def State.CacheSound (st : State P S V M Pr) : Prop :=
  ∀ (id l : Nat), (id, l) ∈ st.contradicted → l ≤ st.ps.currentDecisionLevel ∧ id < st.store.length ∧
    ∀ psl, st.ps.backtrack l = .ok psl → ∀ inc : Incompat P S V M, st.store[id]? = some inc →
      ∃ q, psl.relation inc = .contradicted q

/-- every dependency incompatibility in the store is represented in the index of its dependent package
by itself or by a merged incompatibility with the same dependency and a dependent set that contains its
own; "no versions" / "unavailable" incompatibilities are indexed themselves -/
def State.IndexComplete (st : State P S V M Pr) : Prop :=
  ∀ (id : Nat) (inc : Incompat P S V M), st.store[id]? = some inc →
    match inc.kind with
    | .fromDependencyOf p s q t =>
        ∃ id' ∈ st.indexOf p, ∃ inc' s', st.store[id']? = some inc' ∧
          inc'.kind = .fromDependencyOf p s' q t ∧ (∀ v : V, contains s v = true → contains s' v = true)
    | .noVersions p _ => id ∈ st.indexOf p
    | .custom p _ _ => id ∈ st.indexOf p
    | _ => True

end
end Pubgrub

/-
Homomorphisms of version sets, part 4: commutation lemmas for `PubgrubModel/Core.lean`.
-/
import PubgrubProofs.HomSolverAux3

set_option linter.unusedSectionVars false
set_option linter.unnecessarySeqFocus false

namespace Pubgrub
open VersionSet

section CoreLemmas
variable {P S V S' V' M Pr : Type} [DecidableEq P] [VersionSet S V] [VersionSet S' V']
  [DecidableEq S] [DecidableEq S']

/-! ### projections -/

@[simp] theorem State.mapH_rootPackage (h : VSetHom S V S' V') (st : State P S V M Pr) :
    (State.mapH h st).rootPackage = st.rootPackage := rfl
@[simp] theorem State.mapH_rootVersion (h : VSetHom S V S' V') (st : State P S V M Pr) :
    (State.mapH h st).rootVersion = h.ι st.rootVersion := rfl
@[simp] theorem State.mapH_incompatibilities (h : VSetHom S V S' V') (st : State P S V M Pr) :
    (State.mapH h st).incompatibilities = st.incompatibilities := rfl
@[simp] theorem State.mapH_contradicted (h : VSetHom S V S' V') (st : State P S V M Pr) :
    (State.mapH h st).contradicted = st.contradicted := rfl
@[simp] theorem State.mapH_mergedDependencies (h : VSetHom S V S' V') (st : State P S V M Pr) :
    (State.mapH h st).mergedDependencies = st.mergedDependencies := rfl
@[simp] theorem State.mapH_ps (h : VSetHom S V S' V') (st : State P S V M Pr) :
    (State.mapH h st).ps = PartialSolution.mapH h st.ps := rfl
@[simp] theorem State.mapH_store (h : VSetHom S V S' V') (st : State P S V M Pr) :
    (State.mapH h st).store = st.store.map (Incompat.mapH h) := rfl
@[simp] theorem State.mapH_buffer (h : VSetHom S V S' V') (st : State P S V M Pr) :
    (State.mapH h st).buffer = st.buffer := rfl
@[simp] theorem State.mapH_debug (h : VSetHom S V S' V') (st : State P S V M Pr) :
    (State.mapH h st).debug = st.debug := rfl

theorem State.mapH_mk (h : VSetHom S V S' V') (a : P) (b : V) (c : List (P × List Nat)) (d : List (Nat × Nat))
    (e : List ((P × P) × List Nat)) (f : PartialSolution P S V Pr) (g : List (Incompat P S V M))
    (i : List P) (j : Bool) :
    State.mapH h ⟨a, b, c, d, e, f, g, i, j⟩ =
      ⟨a, h.ι b, c, d, e, PartialSolution.mapH h f, g.map (Incompat.mapH h), i, j⟩ := rfl

/-! ### the functions -/

@[simp] theorem State.init_mapH (h : VSetHom S V S' V') (debug : Bool) (root : P) (rv : V) :
    (State.init debug root (h.ι rv) : State P S' V' M Pr) = State.mapH h (State.init debug root rv) := by
  simp [State.init, State.mapH]

theorem State.findMerge_mapH (h : VSetHom S V S' V') (store : List (Incompat P S V M))
    (inc : Incompat P S V M) (ids : List Nat) :
    State.findMerge (store.map (Incompat.mapH h)) (Incompat.mapH h inc) ids =
      (State.findMerge store inc ids).map (Option.map fun x => (x.1, Incompat.mapH h x.2)) := by
  induction ids with
  | nil => rfl
  | cons past rest ih =>
    simp only [State.findMerge, storeGet_map]
    cases storeGet store past with
    | error e => rfl
    | ok pastInc =>
      simp only [exceptMap_ok, except_ok_bind, Incompat.mergeDependents_mapH]
      cases inc.mergeDependents pastInc with
      | error e => rfl
      | ok o =>
        cases o with
        | none => simpa using ih
        | some merged => rfl

theorem foldl_keys_mapVals {K T T' σ : Type} (g : T → T') (F : σ → K → σ) (l : List (K × T)) (init : σ) :
    (l.map fun kv => (kv.1, g kv.2)).foldl (fun acc kv => F acc kv.1) init =
      l.foldl (fun acc kv => F acc kv.1) init := by
  rw [List.foldl_map]

/-- first half of `merge_incompatibility` (restated, see `mergeIncompatibility_eq`) -/
def State.mergeHead (st : State P S V M Pr) (id : Nat) : R (State P S V M Pr × Nat) := do
  let inc ← storeGet st.store id
  match inc.asDependency with
    | none => pure (st, id)
    | some key =>
      let depsLookup := (SmallMap.get st.mergedDependencies key).getD []
      match ← State.findMerge st.store inc depsLookup with
      | some (past, merged) =>
        let new := st.store.length
        let store := st.store ++ [merged]
        let idx := merged.terms.foldl (fun idx kv => State.updIndex idx kv.1 (fun ids => ids.filter (· ≠ past)))
          st.incompatibilities
        let depsLookup' := depsLookup.map fun x => if x = past then new else x
        pure ({ st with store := store, incompatibilities := idx,
                        mergedDependencies := SmallMap.insert st.mergedDependencies key depsLookup' }, new)
      | none =>
        pure ({ st with mergedDependencies := SmallMap.insert st.mergedDependencies key (depsLookup ++ [id]) }, id)

/-- second half of `merge_incompatibility` -/
def State.mergeTail (st : State P S V M Pr) (id : Nat) : R (State P S V M Pr) := do
  let inc ← storeGet st.store id
  if st.debug && inc.terms.any (fun kv => kv.2 = (Term.any : Term S)) then
    throw (.panic "merge_incompatibility: assert_ne!(term, Term::any())")
  let idx := inc.terms.foldl (fun idx kv => State.updIndex idx kv.1 (fun ids => ids ++ [id])) st.incompatibilities
  pure { st with incompatibilities := idx }

theorem State.mergeIncompatibility_eq (st : State P S V M Pr) (id : Nat) :
    st.mergeIncompatibility id = (st.mergeHead id >>= fun x => State.mergeTail x.1 x.2) := by
  unfold State.mergeIncompatibility State.mergeHead State.mergeTail
  cases storeGet st.store id with
  | error e => rfl
  | ok inc =>
    simp only [except_ok_bind]
    cases inc.asDependency with
    | none => rfl
    | some key =>
      simp only []
      cases State.findMerge st.store inc ((SmallMap.get st.mergedDependencies key).getD []) with
      | error e => rfl
      | ok o =>
        cases o with
        | none => rfl
        | some x => rfl

theorem State.mergeHead_mapH (h : VSetHom S V S' V') (st : State P S V M Pr) (id : Nat) :
    (State.mapH h st).mergeHead id =
      (st.mergeHead id).map fun x => (State.mapH h x.1, x.2) := by
  unfold State.mergeHead
  simp only [State.mapH_store, storeGet_map]
  cases storeGet st.store id with
  | error e => rfl
  | ok inc =>
    simp only [exceptMap_ok, except_ok_bind, Incompat.asDependency_mapH, State.mapH_mergedDependencies]
    cases inc.asDependency with
    | none => rfl
    | some key =>
      simp only [State.findMerge_mapH]
      cases State.findMerge st.store inc ((SmallMap.get st.mergedDependencies key).getD []) with
      | error e => rfl
      | ok o =>
        cases o with
        | none => rfl
        | some x =>
          obtain ⟨past, merged⟩ := x
          simp [State.mapH, List.foldl_map]

theorem State.mergeTail_mapH (h : VSetHom S V S' V') (st : State P S V M Pr) (id : Nat) :
    (State.mapH h st).mergeTail id = (st.mergeTail id).map (State.mapH h) := by
  unfold State.mergeTail
  simp only [State.mapH_store, storeGet_map]
  cases storeGet st.store id with
  | error e => rfl
  | ok inc =>
    simp only [exceptMap_ok, except_ok_bind, State.mapH_debug, Incompat.mapH_terms, List.any_map,
      Function.comp_def, Term.mapH_eq_any_iff]
    split
    · rfl
    · simp [State.mapH, List.foldl_map]

theorem State.mergeIncompatibility_mapH (h : VSetHom S V S' V') (st : State P S V M Pr) (id : Nat) :
    (State.mapH h st).mergeIncompatibility id = (st.mergeIncompatibility id).map (State.mapH h) := by
  rw [State.mergeIncompatibility_eq, State.mergeIncompatibility_eq]
  apply except_bind_comm (fun x : State P S V M Pr × Nat => (State.mapH h x.1, x.2))
  · exact State.mergeHead_mapH h st id
  · intro x
    exact State.mergeTail_mapH h x.1 x.2

theorem State.mapH_withStore (h : VSetHom S V S' V') (st : State P S V M Pr) (l : List (Incompat P S V M)) :
    ({ State.mapH h st with store := (st.store.map (Incompat.mapH h)) ++ l.map (Incompat.mapH h) } :
        State P S' V' M Pr) = State.mapH h { st with store := st.store ++ l } := by
  simp [State.mapH]

theorem State.addIncompatibility_mapH (h : VSetHom S V S' V') (st : State P S V M Pr)
    (inc : Incompat P S V M) :
    (State.mapH h st).addIncompatibility (Incompat.mapH h inc) =
      (st.addIncompatibility inc).map (State.mapH h) := by
  unfold State.addIncompatibility
  have := State.mapH_withStore h st [inc]
  simp only [List.map_cons, List.map_nil] at this
  simp only [State.mapH_store, List.length_map]
  rw [show ({ State.mapH h st with store := (st.store.map (Incompat.mapH h)) ++ [Incompat.mapH h inc] } :
        State P S' V' M Pr) = State.mapH h { st with store := st.store ++ [inc] } from this]
  exact State.mergeIncompatibility_mapH h _ _

theorem State.addIncompatibilityFromDependencies_mapH (h : VSetHom S V S' V') (st : State P S V M Pr)
    (p : P) (v : V) (deps : List (P × S)) :
    (State.mapH h st).addIncompatibilityFromDependencies p (h.ι v) (deps.map fun kv => (kv.1, h.f kv.2)) =
      (st.addIncompatibilityFromDependencies p v deps).map fun x => (State.mapH h x.1, x.2) := by
  unfold State.addIncompatibilityFromDependencies
  simp only [State.mapH_store, List.length_map, List.length_append, List.map_map]
  have hnews : (List.map ((fun dep => Incompat.fromDependency (M := M) p (singleton (h.ι v) : S') dep) ∘
        fun kv : P × S => (kv.1, h.f kv.2)) deps) =
      (deps.map fun dep => Incompat.fromDependency (M := M) p (singleton v : S) dep).map (Incompat.mapH h) := by
    simp only [List.map_map]
    congr 1
    funext dep
    simp only [Function.comp, ← h.map_singleton, Incompat.fromDependency_mapH]
  rw [hnews, State.mapH_withStore]
  apply except_bind_comm (State.mapH h)
  · have := foldlM_map_comm (State.mapH (M := M) (Pr := Pr) h) (id : Nat → Nat)
      (fun (st : State P S V M Pr) id => State.mergeIncompatibility st id)
      (fun (st : State P S' V' M Pr) id => State.mergeIncompatibility st id)
      (fun s a => State.mergeIncompatibility_mapH h s a)
    simpa using this _ _
  · intro a
    rfl

theorem State.backtrack_mapH (h : VSetHom S V S' V') (st : State P S V M Pr) (incompat : Nat)
    (changed : Bool) (dl : Nat) :
    (State.mapH h st).backtrack incompat changed dl =
      (st.backtrack incompat changed dl).map (State.mapH h) := by
  unfold State.backtrack
  simp only [State.mapH_ps, PartialSolution.backtrack_mapH]
  cases st.ps.backtrack dl with
  | error e => rfl
  | ok ps =>
    simp only [exceptMap_ok, except_ok_bind]
    cases changed with
    | false => rfl
    | true =>
      simp only [if_true]
      exact State.mergeIncompatibility_mapH (P := P) h
        { st with ps := ps, contradicted := SmallMap.retainVals st.contradicted (fun l => l ≤ dl) } incompat

theorem State.conflictResolution_mapH (h : VSetHom S V S' V') (fuel : Nat) (st : State P S V M Pr)
    (current : Nat) (changed : Bool) :
    State.conflictResolution fuel (State.mapH h st) current changed =
      (State.conflictResolution fuel st current changed).map fun x => (State.mapH h x.1, x.2) := by
  induction fuel generalizing st current changed with
  | zero => rfl
  | succ fuel ih =>
    simp only [State.conflictResolution, State.mapH_store, storeGet_map]
    cases storeGet st.store current with
    | error e => rfl
    | ok inc =>
      simp only [exceptMap_ok, except_ok_bind, State.mapH_rootPackage, State.mapH_rootVersion,
        Incompat.isTerminal_mapH, State.mapH_ps, PartialSolution.satisfierSearch_mapH]
      split
      · rfl
      cases st.ps.satisfierSearch inc st.store with
      | error e => rfl
      | ok x =>
        obtain ⟨package, search⟩ := x
        cases search with
        | differentDecisionLevels prev =>
          simp only [except_ok_bind, State.backtrack_mapH]
          cases st.backtrack current changed prev <;> rfl
        | sameDecisionLevels sc =>
          simp only [except_ok_bind]
          cases storeGet st.store sc with
          | error e => rfl
          | ok causeInc =>
            simp only [exceptMap_ok, except_ok_bind, Incompat.priorCause_mapH]
            cases Incompat.priorCause current sc inc causeInc package with
            | error e => rfl
            | ok prior =>
              simp only [exceptMap_ok, except_ok_bind, List.length_map]
              have key := ih { st with store := st.store ++ [prior] } st.store.length true
              simpa [State.mapH] using key

theorem State.propagateIncompats_mapH (h : VSetHom S V S' V') (st : State P S V M Pr) (ids : List Nat) :
    State.propagateIncompats (State.mapH h st) ids =
      (State.propagateIncompats st ids).map fun x => (State.mapH h x.1, x.2) := by
  induction ids generalizing st with
  | nil => rfl
  | cons id rest ih =>
    simp only [State.propagateIncompats, State.mapH_contradicted, State.mapH_store, storeGet_map,
      State.mapH_ps]
    split
    · exact ih st
    cases storeGet st.store id with
    | error e => rfl
    | ok inc =>
      simp only [exceptMap_ok, PartialSolution.relation_mapH]
      cases st.ps.relation inc with
      | satisfied => rfl
      | almostSatisfied p =>
        simp only [PartialSolution.addDerivation_mapH]
        cases st.ps.addDerivation p id st.store with
        | error e => rfl
        | ok ps =>
          simp only [exceptMap_ok, State.mapH_buffer, PartialSolution.mapH_currentDecisionLevel]
          exact ih { st with buffer := (if st.buffer.contains p then st.buffer else st.buffer ++ [p]), ps := ps,
                             contradicted := SmallMap.insert st.contradicted id ps.currentDecisionLevel }
      | contradicted p =>
        simp only [PartialSolution.mapH_currentDecisionLevel]
        exact ih { st with contradicted := SmallMap.insert st.contradicted id st.ps.currentDecisionLevel }
      | inconclusive => exact ih st

theorem State.unitPropagationLoop_mapH (h : VSetHom S V S' V') (fuel : Nat) (st : State P S V M Pr) :
    State.unitPropagationLoop fuel (State.mapH h st) =
      (State.unitPropagationLoop fuel st).map fun x => (State.mapH h x.1, x.2) := by
  induction fuel generalizing st with
  | zero => rfl
  | succ fuel ih =>
    simp only [State.unitPropagationLoop, State.mapH_buffer, State.mapH_incompatibilities]
    cases st.buffer.getLast? with
    | none => rfl
    | some current =>
      simp only []
      cases SmallMap.get st.incompatibilities current with
      | none => rfl
      | some ids =>
        simp only []
        have hp : ∀ s' : State P S' V' M Pr, s' = State.mapH h { st with buffer := st.buffer.dropLast } →
            State.propagateIncompats s' ids.reverse =
              (State.propagateIncompats { st with buffer := st.buffer.dropLast } ids.reverse).map
                fun x => (State.mapH h x.1, x.2) := by
          intro s' hs'
          rw [hs']
          exact State.propagateIncompats_mapH h _ _
        rw [hp]
        swap
        · rfl
        cases State.propagateIncompats { st with buffer := st.buffer.dropLast } ids.reverse with
        | error e => rfl
        | ok x =>
          obtain ⟨st1, o⟩ := x
          cases o with
          | none => exact ih st1
          | some conflictId =>
            simp only [exceptMap_ok, State.conflictResolution_mapH]
            cases State.conflictResolution fuel st1 conflictId false with
            | error e => rfl
            | ok y =>
              obtain ⟨st2, r⟩ := y
              cases r with
              | error terminal => rfl
              | ok pr =>
                obtain ⟨packageAlmost, rootCause⟩ := pr
                simp only [exceptMap_ok, State.mapH_ps, State.mapH_store, PartialSolution.addDerivation_mapH]
                cases st2.ps.addDerivation packageAlmost rootCause st2.store with
                | error e => rfl
                | ok ps =>
                  simp only [exceptMap_ok, State.mapH_contradicted, PartialSolution.mapH_currentDecisionLevel]
                  exact ih { st2 with buffer := [packageAlmost], ps := ps, contradicted := SmallMap.insert st2.contradicted rootCause ps.currentDecisionLevel }

theorem State.unitPropagation_mapH (h : VSetHom S V S' V') (fuel : Nat) (st : State P S V M Pr) (p : P) :
    (State.mapH h st).unitPropagation fuel p =
      (st.unitPropagation fuel p).map fun x => (State.mapH h x.1, x.2) := by
  unfold State.unitPropagation
  exact State.unitPropagationLoop_mapH h fuel { st with buffer := [p] }

/-! ### build_derivation_tree -/

theorem State.collectIds_mapH (h : VSetHom S V S' V') (store : List (Incompat P S V M)) (fuel : Nat)
    (stack all shared : List Nat) :
    State.collectIds (store.map (Incompat.mapH h)) fuel stack all shared =
      State.collectIds store fuel stack all shared := by
  induction fuel generalizing stack all shared with
  | zero => rfl
  | succ fuel ih =>
    simp only [State.collectIds, storeGet_map]
    cases stack.getLast? with
    | none => rfl
    | some i =>
      simp only []
      cases storeGet store i with
      | error e => rfl
      | ok inc =>
        simp only [exceptMap_ok, Incompat.causes_mapH, ih]

theorem State.buildNode_mapH (h : VSetHom S V S' V') (store : List (Incompat P S V M)) (shared : List Nat)
    (pre : List (Nat × DerivationTree P S V M)) (id : Nat) :
    State.buildNode (store.map (Incompat.mapH h)) shared
        (pre.map fun kv => (kv.1, DerivationTree.mapH h kv.2)) id =
      (State.buildNode store shared pre id).map (DerivationTree.mapH h) := by
  unfold State.buildNode
  simp only [storeGet_map]
  cases storeGet store id with
  | error e => rfl
  | ok inc =>
    obtain ⟨terms, kind⟩ := inc
    cases kind with
    | derivedFrom id1 id2 =>
      simp only [exceptMap_ok, except_ok_bind, Incompat.mapH, Kind.mapH, SmallMap.get_mapVals]
      cases SmallMap.get pre id1 with
      | none => rfl
      | some c1 =>
        cases SmallMap.get pre id2 with
        | none => rfl
        | some c2 => rfl
    | notRoot p v => rfl
    | noVersions p s => rfl
    | fromDependencyOf p s q t => rfl
    | custom p s m => rfl

theorem State.buildDerivationTree_mapH (h : VSetHom S V S' V') (st : State P S V M Pr) (incompat : Nat) :
    (State.mapH h st).buildDerivationTree incompat =
      (st.buildDerivationTree incompat).map (DerivationTree.mapH h) := by
  unfold State.buildDerivationTree
  simp only [State.mapH_store, State.collectIds_mapH, List.length_map]
  cases State.collectIds st.store (2 * st.store.length + 2) [incompat] [] [] with
  | error e => rfl
  | ok x =>
    obtain ⟨all, shared⟩ := x
    simp only [except_ok_bind]
    apply except_bind_comm (fun pre : List (Nat × DerivationTree P S V M) =>
      pre.map fun kv => (kv.1, DerivationTree.mapH h kv.2))
    · have := foldlM_map_comm
        (fun pre : List (Nat × DerivationTree P S V M) => pre.map fun kv => (kv.1, DerivationTree.mapH h kv.2))
        (id : Nat → Nat)
        (fun pre id => do
          let t ← State.buildNode st.store shared pre id
          pure (SmallMap.insert pre id t))
        (fun pre id => do
          let t ← State.buildNode (st.store.map (Incompat.mapH h)) shared pre id
          pure (SmallMap.insert pre id t))
        (by
          intro pre id
          simp only [id_eq, State.buildNode_mapH]
          cases State.buildNode st.store shared pre id with
          | error e => rfl
          | ok t => simp)
        (State.sortIds all) []
      simpa using this
    · intro pre
      simp

end CoreLemmas
end Pubgrub

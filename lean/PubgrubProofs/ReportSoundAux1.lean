/-
Helpers for `ReportSound.lean` (1): list-level facts about lines, references, premises.
-/
import PubgrubProofs.ReportDefs

namespace Pubgrub
open VersionSet

set_option linter.unusedSectionVars false

section
variable {P S V M : Type} [DecidableEq P] [VersionSet S V] [DecidableEq S]

/-! ### entailment -/

theorem Entails.mono {U : P → V → Prop} {A B : List (List (P × Term S))} {c : List (P × Term S)}
    (h : Entails U A c) (hAB : ∀ p ∈ A, p ∈ B) : Entails U B c := by
  intro σ hw hc
  obtain ⟨pr, hpr, ht⟩ := h σ hw hc
  exact ⟨pr, hAB pr hpr, ht⟩

theorem Entails.cut {U : P → V → Prop} {a b c : List (P × Term S)} {B : List (List (P × Term S))}
    (h : Entails U [a, b] c) (ha : Entails U B a) (hb : b ∈ B) : Entails U B c := by
  intro σ hw hc
  obtain ⟨pr, hpr, ht⟩ := h σ hw hc
  simp only [List.mem_cons, List.not_mem_nil, or_false] at hpr
  rcases hpr with rfl | rfl
  · exact ha σ hw ht
  · exact ⟨pr, hb, ht⟩

/-! ### the association list -/

theorem SmallMap.get_insert_self {K T : Type} [DecidableEq K] (m : SmallMap K T) (k : K) (v : T) :
    SmallMap.get (SmallMap.insert m k v) k = some v := by
  induction m with
  | nil => simp [SmallMap.insert, SmallMap.get]
  | cons kv m ih =>
    obtain ⟨k0, v0⟩ := kv
    by_cases h : k = k0
    · simp [SmallMap.insert, SmallMap.get, h]
    · simp [SmallMap.insert, SmallMap.get, h, ih]

theorem SmallMap.get_insert_ne {K T : Type} [DecidableEq K] (m : SmallMap K T) (k k' : K) (v : T)
    (hne : k' ≠ k) : SmallMap.get (SmallMap.insert m k v) k' = SmallMap.get m k' := by
  induction m with
  | nil => simp [SmallMap.insert, SmallMap.get, hne]
  | cons kv m ih =>
    obtain ⟨k0, v0⟩ := kv
    by_cases h : k = k0
    · subst h
      simp [SmallMap.insert, SmallMap.get, hne]
    · by_cases h' : k' = k0
      · simp [SmallMap.insert, SmallMap.get, h, h']
      · simp [SmallMap.insert, SmallMap.get, h, h', ih]

theorem SmallMap.get_of_containsKey_false {K T : Type} [DecidableEq K] (m : SmallMap K T) (k : K)
    (h : ¬ SmallMap.containsKey m k = true) : SmallMap.get m k = none := by
  simpa [SmallMap.containsKey] using h

/-! ### premises as a function of the preceding lines -/

/-- `stepPremises` only looks at the lines before the step -/
def premOf (pre : List (Line P S V M)) (st : Step P S V M) : List (List (P × Term S)) :=
  st.namedExternals.map External.terms ++
  (st.citedRefs.filterMap fun kt => conclusionOfRef pre kt.1) ++
  (if st.isAnd then
    match pre.getLast? with
    | some l => l.step.conclusion.toList
    | none => []
   else [])

theorem stepPremises_eq (lines : List (Line P S V M)) (i : Nat) (st : Step P S V M) :
    stepPremises lines i st = premOf (lines.take i) st := rfl

/-- all external facts named by the lines -/
def namedAll (lines : List (Line P S V M)) : List (External P S V M) :=
  lines.flatMap fun l => l.step.namedExternals

theorem namedAll_append (a b : List (Line P S V M)) : namedAll (a ++ b) = namedAll a ++ namedAll b := by
  simp [namedAll]

theorem namedAll_single (l : Line P S V M) : namedAll [l] = l.step.namedExternals := by
  simp [namedAll]

theorem mem_namedAll {lines : List (Line P S V M)} {e : External P S V M} :
    e ∈ namedAll lines ↔ ∃ l ∈ lines, e ∈ l.step.namedExternals := by
  simp [namedAll]

theorem allRefs_append (a b : List (Line P S V M)) : allRefs (a ++ b) = allRefs a ++ allRefs b := by
  simp [allRefs]

theorem allRefs_single (l : Line P S V M) : allRefs [l] = l.refs := by
  simp [allRefs]

theorem mem_allRefs {lines : List (Line P S V M)} {k : Nat} :
    k ∈ allRefs lines ↔ ∃ l ∈ lines, k ∈ l.refs := by
  simp [allRefs]

/-- number `k` resolves among `lines` to exactly one line, which concludes `tt` -/
def RefOK (lines : List (Line P S V M)) (k : Nat) (tt : List (P × Term S)) : Prop :=
  conclusionOfRef lines k = some tt ∧ (lines.filter fun l' => l'.refs.contains k).length = 1

theorem conclusionOfRef_append_of_some {a : List (Line P S V M)} {k : Nat} {tt : List (P × Term S)}
    (h : conclusionOfRef a k = some tt) (b : List (Line P S V M)) :
    conclusionOfRef (a ++ b) k = some tt := by
  unfold conclusionOfRef at h ⊢
  rw [List.find?_append]
  generalize a.find? (fun l => l.refs.contains k) = o at h ⊢
  cases o with
  | none => simp at h
  | some l => simpa using h

theorem RefOK.push {lines : List (Line P S V M)} {k : Nat} {tt : List (P × Term S)}
    (h : RefOK lines k tt) (st : Step P S V M) : RefOK (lines ++ [{ step := st, refs := [] }]) k tt := by
  refine ⟨conclusionOfRef_append_of_some h.1 _, ?_⟩
  rw [List.filter_append]
  simpa using h.2

/-- a line carrying `k` exists when `k` resolves -/
theorem RefOK.exists_line {lines : List (Line P S V M)} {k : Nat} {tt : List (P × Term S)}
    (h : RefOK lines k tt) : ∃ l ∈ lines, k ∈ l.refs := by
  have h1 := h.1
  unfold conclusionOfRef at h1
  cases hf : lines.find? fun l => l.refs.contains k with
  | none => rw [hf] at h1; simp at h1
  | some l =>
    refine ⟨l, List.mem_of_find?_eq_some hf, ?_⟩
    have := List.find?_some hf
    simpa using this

/-- appending a fresh number to the last line does not disturb the other numbers -/
theorem RefOK.addRef {init : List (Line P S V M)} {l : Line P S V M} {k n : Nat}
    {tt : List (P × Term S)} (hne : k ≠ n) (h : RefOK (init ++ [l]) k tt) :
    RefOK (init ++ [{ l with refs := l.refs ++ [n] }]) k tt := by
  unfold RefOK conclusionOfRef at h ⊢
  rw [List.find?_append, List.filter_append] at h ⊢
  have hc : (l.refs ++ [n]).contains k = l.refs.contains k := by
    simp [hne]
  rw [List.find?_singleton] at h ⊢
  simp only [List.filter_cons, List.filter_nil] at h ⊢
  rw [hc]
  cases hk : l.refs.contains k
  · rw [hk] at h; exact h
  · rw [hk] at h
    generalize init.find? (fun l => l.refs.contains k) = o at h ⊢
    cases o <;> simpa using h

/-- the fresh number resolves to the last line -/
theorem RefOK.fresh {init : List (Line P S V M)} {l : Line P S V M} {n : Nat}
    {tt : List (P × Term S)} (hfresh : ∀ l' ∈ init, n ∉ l'.refs) (hc : l.step.conclusion = some tt) :
    RefOK (init ++ [{ l with refs := l.refs ++ [n] }]) n tt := by
  have hnone : init.find? (fun l' => l'.refs.contains n) = none := by
    simpa using hfresh
  have hfil : init.filter (fun l' => l'.refs.contains n) = [] := by
    simpa using hfresh
  unfold RefOK conclusionOfRef
  rw [List.find?_append, List.filter_append, hnone, hfil]
  simp [hc]

end
end Pubgrub

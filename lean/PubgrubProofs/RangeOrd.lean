/-
The ordering on ranges is a total order consistent with equality (property C16).
All statements are for arbitrary segment lists (no canonical-form hypothesis).
-/
import PubgrubProofs.Defs

namespace Pubgrub.Range
open Pubgrub Bound
variable {V : Type} [LinearOrder V]

/-! ### `cmpV` characterisations -/

theorem cmpV_lt_iff (a b : V) : cmpV a b = .lt ↔ a < b := by
  unfold cmpV; split_ifs <;> simp_all

theorem cmpV_eq_iff (a b : V) : cmpV a b = .eq ↔ a = b := by
  unfold cmpV; split_ifs <;> simp_all; order

theorem cmpV_gt_iff (a b : V) : cmpV a b = .gt ↔ b < a := by
  unfold cmpV; split_ifs <;> simp_all <;> order

/-! ### explicit characterisation of the bound comparisons -/

/-- `a` is a strictly smaller start bound than `b` -/
def startLt : Bound V → Bound V → Prop
  | unb, unb => False
  | incl _, unb => False
  | excl _, unb => False
  | unb, incl _ => True
  | unb, excl _ => True
  | incl l, incl r => l < r
  | excl l, incl r => l < r
  | incl l, excl r => l ≤ r
  | excl l, excl r => l < r

/-- `a` is a strictly smaller end bound than `b` -/
def endLt : Bound V → Bound V → Prop
  | unb, unb => False
  | incl _, unb => True
  | excl _, unb => True
  | unb, incl _ => False
  | unb, excl _ => False
  | incl l, incl r => l < r
  | excl l, incl r => l ≤ r
  | incl l, excl r => l < r
  | excl l, excl r => l < r

theorem cmpV_cases (a b : V) :
    (cmpV a b = .lt ∧ a < b) ∨ (cmpV a b = .eq ∧ a = b) ∨ (cmpV a b = .gt ∧ b < a) := by
  rcases lt_trichotomy a b with h | h | h
  · exact Or.inl ⟨(cmpV_lt_iff a b).2 h, h⟩
  · exact Or.inr (Or.inl ⟨(cmpV_eq_iff a b).2 h, h⟩)
  · exact Or.inr (Or.inr ⟨(cmpV_gt_iff a b).2 h, h⟩)

theorem cmpBoundsStart_lt_iff (a b : Bound V) : cmpBoundsStart a b = .lt ↔ startLt a b := by
  cases a <;> cases b <;> simp only [cmpBoundsStart, startLt] <;> try simp
  all_goals
    rename_i l r
    rcases cmpV_cases l r with ⟨h, h'⟩ | ⟨h, h'⟩ | ⟨h, h'⟩ <;> simp [h] <;> order

theorem cmpBoundsStart_eq_iff (a b : Bound V) : cmpBoundsStart a b = .eq ↔ a = b := by
  cases a <;> cases b <;> simp only [cmpBoundsStart] <;> try simp
  all_goals
    rename_i l r
    rcases cmpV_cases l r with ⟨h, h'⟩ | ⟨h, h'⟩ | ⟨h, h'⟩ <;> simp [h] <;> order

theorem cmpBoundsStart_gt_iff (a b : Bound V) : cmpBoundsStart a b = .gt ↔ startLt b a := by
  cases a <;> cases b <;> simp only [cmpBoundsStart, startLt] <;> try simp
  all_goals
    rename_i l r
    rcases cmpV_cases l r with ⟨h, h'⟩ | ⟨h, h'⟩ | ⟨h, h'⟩ <;> simp [h] <;> order

theorem cmpBoundsEnd_lt_iff (a b : Bound V) : cmpBoundsEnd a b = .lt ↔ endLt a b := by
  cases a <;> cases b <;> simp only [cmpBoundsEnd, endLt] <;> try simp
  all_goals
    rename_i l r
    rcases cmpV_cases l r with ⟨h, h'⟩ | ⟨h, h'⟩ | ⟨h, h'⟩ <;> simp [h] <;> order

theorem cmpBoundsEnd_eq_iff (a b : Bound V) : cmpBoundsEnd a b = .eq ↔ a = b := by
  cases a <;> cases b <;> simp only [cmpBoundsEnd] <;> try simp
  all_goals
    rename_i l r
    rcases cmpV_cases l r with ⟨h, h'⟩ | ⟨h, h'⟩ | ⟨h, h'⟩ <;> simp [h] <;> order

theorem cmpBoundsEnd_gt_iff (a b : Bound V) : cmpBoundsEnd a b = .gt ↔ endLt b a := by
  cases a <;> cases b <;> simp only [cmpBoundsEnd, endLt] <;> try simp
  all_goals
    rename_i l r
    rcases cmpV_cases l r with ⟨h, h'⟩ | ⟨h, h'⟩ | ⟨h, h'⟩ <;> simp [h] <;> order

theorem startLt_trans (a b c : Bound V) (h1 : startLt a b) (h2 : startLt b c) : startLt a c := by
  cases a <;> cases b <;> cases c <;> simp_all only [startLt] <;> order

theorem endLt_trans (a b c : Bound V) (h1 : endLt a b) (h2 : endLt b c) : endLt a c := by
  cases a <;> cases b <;> cases c <;> simp_all only [endLt] <;> order

/-! ### abstract total comparisons and their lexicographic combinations -/

/-- a comparison function that is a strict total order consistent with equality -/
structure GoodCmp {α : Type} (f : α → α → Ordering) : Prop where
  eq_iff : ∀ a b, f a b = .eq ↔ a = b
  swap : ∀ a b, f b a = (f a b).swap
  lt_trans : ∀ a b c, f a b = .lt → f b c = .lt → f a c = .lt

theorem GoodCmp.le_trans {α : Type} {f : α → α → Ordering} (hf : GoodCmp f) (a b c : α)
    (h1 : f a b ≠ .gt) (h2 : f b c ≠ .gt) : f a c ≠ .gt := by
  cases hab : f a b with
  | gt => exact absurd hab h1
  | eq => rw [(hf.eq_iff a b).1 hab]; exact h2
  | lt =>
    cases hbc : f b c with
    | gt => exact absurd hbc h2
    | eq => rw [← (hf.eq_iff b c).1 hbc, hab]; simp
    | lt => rw [hf.lt_trans a b c hab hbc]; simp

theorem goodCmp_start : GoodCmp (cmpBoundsStart (V := V)) where
  eq_iff := cmpBoundsStart_eq_iff
  swap a b := by
    cases h : cmpBoundsStart a b with
    | lt => exact (cmpBoundsStart_gt_iff b a).2 ((cmpBoundsStart_lt_iff a b).1 h)
    | eq => exact (cmpBoundsStart_eq_iff b a).2 ((cmpBoundsStart_eq_iff a b).1 h).symm
    | gt => exact (cmpBoundsStart_lt_iff b a).2 ((cmpBoundsStart_gt_iff a b).1 h)
  lt_trans a b c h1 h2 :=
    (cmpBoundsStart_lt_iff a c).2
      (startLt_trans a b c ((cmpBoundsStart_lt_iff a b).1 h1) ((cmpBoundsStart_lt_iff b c).1 h2))

theorem goodCmp_end : GoodCmp (cmpBoundsEnd (V := V)) where
  eq_iff := cmpBoundsEnd_eq_iff
  swap a b := by
    cases h : cmpBoundsEnd a b with
    | lt => exact (cmpBoundsEnd_gt_iff b a).2 ((cmpBoundsEnd_lt_iff a b).1 h)
    | eq => exact (cmpBoundsEnd_eq_iff b a).2 ((cmpBoundsEnd_eq_iff a b).1 h).symm
    | gt => exact (cmpBoundsEnd_lt_iff b a).2 ((cmpBoundsEnd_gt_iff a b).1 h)
  lt_trans a b c h1 h2 :=
    (cmpBoundsEnd_lt_iff a c).2
      (endLt_trans a b c ((cmpBoundsEnd_lt_iff a b).1 h1) ((cmpBoundsEnd_lt_iff b c).1 h2))

/-- lexicographic "then" on orderings, as written in the model with nested `match` -/
def thenO (o : Ordering) (k : Ordering) : Ordering :=
  match o with
  | .eq => k
  | o => o

@[simp] theorem thenO_eq (k : Ordering) : thenO .eq k = k := rfl
@[simp] theorem thenO_lt (k : Ordering) : thenO .lt k = .lt := rfl
@[simp] theorem thenO_gt (k : Ordering) : thenO .gt k = .gt := rfl

/-- the lexicographic product of two good comparisons is good -/
theorem GoodCmp.prod {α β : Type} {f : α → α → Ordering} {g : β → β → Ordering}
    (hf : GoodCmp f) (hg : GoodCmp g) :
    GoodCmp (fun (x y : α × β) => thenO (f x.1 y.1) (g x.2 y.2)) where
  eq_iff := by
    rintro ⟨a1, a2⟩ ⟨b1, b2⟩
    simp only [Prod.mk.injEq]
    cases h : f a1 b1 with
    | lt => simp only [thenO_lt, reduceCtorEq, false_iff]
            rintro ⟨e, -⟩; rw [(hf.eq_iff a1 b1).2 e] at h; cases h
    | gt => simp only [thenO_gt, reduceCtorEq, false_iff]
            rintro ⟨e, -⟩; rw [(hf.eq_iff a1 b1).2 e] at h; cases h
    | eq => simp only [thenO_eq, hg.eq_iff, (hf.eq_iff a1 b1).1 h, true_and]
  swap := by
    rintro ⟨a1, a2⟩ ⟨b1, b2⟩
    simp only
    rw [hf.swap a1 b1, hg.swap a2 b2]
    cases f a1 b1 <;> simp
  lt_trans := by
    rintro ⟨a1, a2⟩ ⟨b1, b2⟩ ⟨c1, c2⟩
    simp only
    intro h1 h2
    cases hab : f a1 b1 with
    | gt => simp [hab] at h1
    | eq =>
      have e := (hf.eq_iff a1 b1).1 hab; subst e
      rw [hab] at h1; simp only [thenO_eq] at h1
      cases hbc : f a1 c1 with
      | gt => simp [hbc] at h2
      | lt => simp
      | eq => rw [hbc] at h2; simp only [thenO_eq] at h2 ⊢; exact hg.lt_trans _ _ _ h1 h2
    | lt =>
      cases hbc : f b1 c1 with
      | gt => simp [hbc] at h2
      | eq => have e := (hf.eq_iff b1 c1).1 hbc; subst e; simp [hab]
      | lt => simp [hf.lt_trans _ _ _ hab hbc]

/-- lexicographic comparison of lists, shorter-is-smaller -/
def lexCmp {α : Type} (f : α → α → Ordering) : List α → List α → Ordering
  | x :: l, y :: r => thenO (f x y) (lexCmp f l r)
  | [], [] => .eq
  | [], _ :: _ => .lt
  | _ :: _, [] => .gt

theorem GoodCmp.list {α : Type} {f : α → α → Ordering} (hf : GoodCmp f) : GoodCmp (lexCmp f) where
  eq_iff := by
    intro a
    induction a with
    | nil => intro b; cases b <;> simp [lexCmp]
    | cons x l ih =>
      intro b
      cases b with
      | nil => simp [lexCmp]
      | cons y r =>
        simp only [lexCmp, List.cons.injEq]
        cases h : f x y with
        | lt => simp only [thenO_lt, reduceCtorEq, false_iff]
                rintro ⟨e, -⟩; rw [(hf.eq_iff x y).2 e] at h; cases h
        | gt => simp only [thenO_gt, reduceCtorEq, false_iff]
                rintro ⟨e, -⟩; rw [(hf.eq_iff x y).2 e] at h; cases h
        | eq => simp only [thenO_eq, ih, (hf.eq_iff x y).1 h, true_and]
  swap := by
    intro a
    induction a with
    | nil => intro b; cases b <;> simp [lexCmp]
    | cons x l ih =>
      intro b
      cases b with
      | nil => simp [lexCmp]
      | cons y r =>
        simp only [lexCmp]
        rw [hf.swap x y, ih r]
        cases f x y <;> simp
  lt_trans := by
    intro a
    induction a with
    | nil => intro b c; cases b <;> cases c <;> simp [lexCmp]
    | cons x l ih =>
      intro b c
      cases b with
      | nil => simp [lexCmp]
      | cons y r =>
        cases c with
        | nil => simp [lexCmp]
        | cons z t =>
          simp only [lexCmp]
          intro h1 h2
          cases hab : f x y with
          | gt => simp [hab] at h1
          | eq =>
            have e := (hf.eq_iff x y).1 hab; subst e
            rw [hab] at h1; simp only [thenO_eq] at h1
            cases hbc : f x z with
            | gt => simp [hbc] at h2
            | lt => simp
            | eq => rw [hbc] at h2; simp only [thenO_eq] at h2 ⊢; exact ih _ _ h1 h2
          | lt =>
            cases hbc : f y z with
            | gt => simp [hbc] at h2
            | eq => have e := (hf.eq_iff y z).1 hbc; subst e; simp [hab]
            | lt => simp [hf.lt_trans _ _ _ hab hbc]

/-- the segment comparison used by `cmp` -/
def segCmp (x y : Seg V) : Ordering :=
  thenO (cmpBoundsStart x.1 y.1) (cmpBoundsEnd x.2 y.2)

theorem goodCmp_seg : GoodCmp (segCmp (V := V)) := GoodCmp.prod goodCmp_start goodCmp_end

theorem cmp_eq_lexCmp (a b : Range V) : cmp a b = lexCmp segCmp a b := by
  induction a generalizing b with
  | nil => cases b <;> simp [cmp, lexCmp]
  | cons x l ih =>
    obtain ⟨ls, le⟩ := x
    cases b with
    | nil => simp [cmp, lexCmp]
    | cons y r =>
      obtain ⟨rs, re⟩ := y
      simp only [cmp, lexCmp, segCmp, ih]
      cases cmpBoundsStart ls rs <;> simp only [thenO_eq, thenO_lt, thenO_gt]
      cases cmpBoundsEnd le re <;> simp only [thenO_eq, thenO_lt, thenO_gt]

theorem goodCmp_cmp : GoodCmp (cmp (V := V)) := by
  have h : (cmp (V := V)) = lexCmp segCmp := by
    funext a b; exact cmp_eq_lexCmp a b
  rw [h]; exact GoodCmp.list goodCmp_seg

/-! ### targets -/

theorem cmp_eq_iff (a b : Range V) : cmp a b = .eq ↔ a = b := goodCmp_cmp.eq_iff a b

theorem cmp_swap (a b : Range V) : cmp b a = (cmp a b).swap := goodCmp_cmp.swap a b

theorem cmp_lt_trans (a b c : Range V) (h1 : cmp a b = .lt) (h2 : cmp b c = .lt) :
    cmp a c = .lt := goodCmp_cmp.lt_trans a b c h1 h2

/-- transitivity of `≤` in the form used by `Ord`: not-greater composes -/
theorem cmp_le_trans (a b c : Range V) (h1 : cmp a b ≠ .gt) (h2 : cmp b c ≠ .gt) :
    cmp a c ≠ .gt := goodCmp_cmp.le_trans a b c h1 h2

end Pubgrub.Range
